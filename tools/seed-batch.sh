#!/bin/bash
# usage: tools/seed-batch.sh <prefix e.g. W6> <worktree prefix e.g. /tmp/wt6-> <file with lines prop|k|name|needs> [suffix for needs]
# Confirms and records every listed sub-agent change (tools/seed.py) and prints which checks report it.
prefix=$1; wt=$2; list=$3; suffix=${4:-}
while IFS='|' read prop k name needs; do
  [ -z "$prop" ] && continue
  echo "== $prop $k $name"
  "$(dirname "$0")/seed.py" "$prefix-$prop-$name" "$prop" "$wt$prop/patch$k.diff" "$wt$prop/demo${k}_test.go" "$needs $suffix" 2>&1 | tail -2
done < "$list"
