#!/bin/bash
# Regenerates findings/*.json (replay files of the three repaired defects) with the current harness:
# each fix is reverted in a scratch copy, the check is run there, the replay file of the expected signature is kept,
# and it is confirmed that it reproduces on the reverted copy and holds on /repo.
set -u
cd "$(dirname "$0")/.."
refresh() { # mutant property signature-glob target
  local tmp; tmp=$(mktemp -d /tmp/verif-find-XXXXXX)
  mkdir "$tmp/repo"; cp /repo/*.go /repo/go.mod "$tmp/repo/"
  ( cd "$tmp/repo" && git init -q . && git apply --whitespace=nowarn "/verif/mutants/$1.diff" ) || { echo "patch failed"; return 1; }
  rm -f replays/$3
  VERIF_REPO="$tmp/repo" VERIF_EVIDENCE_DIR="$tmp/ev" ./check "$2" > "$tmp/out" 2>&1
  local f; f=$(ls replays/$3 2>/dev/null | head -1)
  if [ -z "$f" ]; then echo "$1 $2: no replay matching $3"; tail -3 "$tmp/out"; rm -rf "$tmp"; return 1; fi
  cp "$f" "findings/$4"
  VERIF_REPO="$tmp/repo" VERIF_EVIDENCE_DIR="$tmp/ev" ./check "$2" --replay "findings/$4" > "$tmp/r1" 2>&1; local a=$?
  ./check "$2" --replay "findings/$4" > "$tmp/r2" 2>&1; local b=$?
  echo "$4: reproduces on the reverted copy: exit $a (want 1); on /repo: exit $b (want 0)"
  rm -rf "$tmp"
}
refresh revert-concat-fix C15 'C15-race_list.Concat-*.json' C15-race-Concat-prefix.json
refresh revert-concat-fix C09 'C09-frame_derived_Concat-*.json' C09-Concat-shares-spare-capacity.json
refresh revert-insert-fix C05 'C05-atomicity_Insert-*.json' C05-Insert-atomicity-prefix.json
refresh revert-settf-fix C11 'C11-unexpected-panic_SetTF-*.json' C11-SetTF-wrong-kind-prefix.json
