#!/usr/bin/env python3
"""Generates /verif/mutants/<name>.diff and catalogue.json from textual edits of the current /repo sources.

Each entry: name, [(file, old, new)...], breaks=[property ids whose check must report a violation],
green=[property ids whose check must stay silent] (property-preserving variants have breaks=[]).
Run after /repo changes; `./check selftest-mutants` consumes the catalogue.
"""
import json, os, shutil, subprocess, sys, tempfile

REPO = "/repo"
OUT = os.path.join(os.path.dirname(os.path.dirname(os.path.abspath(__file__))), "mutants")
M = []


def mut(name, edits, breaks, green=(), note=""):
    M.append(dict(name=name, edits=edits, breaks=list(breaks), green=list(green), note=note))


L, O, P, A = "list_impl.go", "object_impl.go", "parser.go", "anytype.go"

# ---------------------------------------------------------------- C15
LFE_OLD = """	wg.Add(ego.Ego().Count())
	for i, item := range ego.val {
		go step(&wg, i, item.getVal())
	}
	wg.Wait()
	return ego.Ego()"""
mut("c15-foreach-no-wait", [(L, LFE_OLD, LFE_OLD.replace("	wg.Wait()\n", ""))], ["C15"], note="list ForEachAsync returns without waiting")
mut("c15-foreach-add-n-minus-1", [(L, LFE_OLD, LFE_OLD.replace("wg.Add(ego.Ego().Count())", "wg.Add(ego.Ego().Count() - 1)"))], ["C15"],
    note="negative counter when empty, early return otherwise")
mut("c15-foreach-done-before-callback", [(L, """		function(i, x)
		group.Done()
	}
	wg.Add(ego.Ego().Count())""", """		group.Done()
		function(i, x)
	}
	wg.Add(ego.Ego().Count())""")], ["C15"], note="Done moved before the callback: early return under some schedules")
mut("c15-foreach-closure-loopvar", [(L, LFE_OLD, """	wg.Add(ego.Ego().Count())
	for i, item := range ego.val {
		go func() {
			step(&wg, i, item.getVal())
		}()
	}
	wg.Wait()
	return ego.Ego()""")], ["C15"], note="worker closure captures the shared loop variables (go 1.18 semantics)")
mut("c15-foreach-skip-last", [(L, LFE_OLD, """	wg.Add(ego.Ego().Count())
	for i, item := range ego.val {
		if i > 0 && i == len(ego.val)-1 && len(ego.val) > 6 {
			wg.Done()
			continue
		}
		go step(&wg, i, item.getVal())
	}
	wg.Wait()
	return ego.Ego()""")], ["C15"], note="last element of long lists skipped")
mut("c04-parsefile-single-read-assumes-full", [(P, """	data, err := os.ReadFile(path)
	if err != nil {
		return nil, err
	}""", """	file, err := os.Open(path)
	if err != nil {
		return nil, err
	}
	defer file.Close()
	info, err := file.Stat()
	if err != nil {
		return nil, err
	}
	// The size is known, one read into a buffer of that size is enough.
	data := make([]byte, info.Size())
	n, err := file.Read(data)
	if err != nil && err != io.EOF {
		return nil, err
	}
	data = data[:n]"""), (P, 'import (\n\t"fmt"\n', 'import (\n\t"fmt"\n\t"io"\n')], ["C04"],
    note="ParseFile opens the file and issues one Read of Stat().Size() bytes: only a disk that delivers short reads shows it (rule R14)")
mut("c15-list-string-memo-unsynchronised", [(L, "type list struct {\n\tval []field\n\tptr List\n}", "type list struct {\n\tval []field\n\tptr List\n\tstr string\n\tstrLen int\n}"),
    (L, "func (ego *list) String() string {\n\treturn ego.Ego().serialize()\n}",
     "func (ego *list) String() string {\n\tif ego.strLen == len(ego.val)+1 {\n\t\treturn ego.str\n\t}\n\tego.str = ego.Ego().serialize()\n\tego.strLen = len(ego.val) + 1\n\treturn ego.str\n}")],
    ["C15"], note="String() of a list memoised in unsynchronised fields on first use: only clients that meet the list cold race (cold readers / cold containers)")
LMA_OLD = """		mutex.Lock()
		result.Replace(i, function(i, x))
		mutex.Unlock()
		group.Done()"""
mut("c15-mapasync-list-add-instead-of-replace", [(L, "	result := NewListOf(nil, ego.Ego().Count())\n	step := func(group *sync.WaitGroup, i int, x any) {", "	result := NewList()\n	step := func(group *sync.WaitGroup, i int, x any) {"),
                                                 (L, LMA_OLD, LMA_OLD.replace("result.Replace(i, function(i, x))", "result.Add(function(i, x))"))], ["C15"],
    note="result assembled in completion order")
mut("c15-mapasync-list-no-mutex", [(L, LMA_OLD, "		result.Replace(i, function(i, x))\n		group.Done()"), (L, "	var mutex sync.Mutex\n	wg.Add(ego.Ego().Count())\n	result := NewListOf", "	wg.Add(ego.Ego().Count())\n	result := NewListOf")],
    [], ["C15", "C09"], note="PRESERVING: distinct slots of a pre-sized list need no mutex")
OMA_OLD = """		mutex.Lock()
		result.Set(k, function(k, x))
		mutex.Unlock()
		group.Done()"""
mut("c15-mapasync-object-no-mutex", [(O, OMA_OLD, "		result.Set(k, function(k, x))\n		group.Done()"), (O, "	var mutex sync.Mutex\n	wg.Add(ego.Count())\n	result := NewObject()", "	wg.Add(ego.Count())\n	result := NewObject()")],
    ["C15"], note="unsynchronised map writes")
mut("c15-mapasync-object-done-inside-lock-before-set", [(O, OMA_OLD, """		val := function(k, x)
		group.Done()
		mutex.Lock()
		result.Set(k, val)
		mutex.Unlock()""")], ["C15"], note="Done before the result is stored: lost fields if the caller runs ahead")
mut("c15-count-cache", [(L, """func (ego *list) Count() int {
	return len(ego.val)
}""", """func (ego *list) Count() int {
	ego.cnt = len(ego.val)
	return ego.cnt
}"""), (L, "	val []field\n	ptr List\n}", "	val []field\n	ptr List\n	cnt int\n}")], ["C15"], note="read-only method writes a hidden field: concurrent readers race")
mut("c15-waitgroup-replaced-by-mutex-counter", [(L, """	var wg sync.WaitGroup
	step := func(group *sync.WaitGroup, i int, x any) {
		function(i, x)
		group.Done()
	}
	wg.Add(ego.Ego().Count())
	for i, item := range ego.val {
		go step(&wg, i, item.getVal())
	}
	wg.Wait()
	return ego.Ego()""", """	var wg sync.WaitGroup
	var mu sync.Mutex
	done := 0
	step := func(group *sync.WaitGroup, i int, x any) {
		function(i, x)
		mu.Lock()
		done++
		mu.Unlock()
		group.Done()
	}
	wg.Add(ego.Ego().Count())
	for i, item := range ego.val {
		go step(&wg, i, item.getVal())
	}
	wg.Wait()
	mu.Lock()
	_ = done
	mu.Unlock()
	return ego.Ego()""")], [], ["C15"], note="PRESERVING: extra mutex-protected bookkeeping")

CHAN_FE = """	n := ego.Ego().Count()
	done := make(chan struct{}, n)
	for i, item := range ego.val {
		go func(i int, x any) {
			function(i, x)
			done <- struct{}{}
		}(i, item.getVal())
	}
	for k := 0; k < n; k++ {
		<-done
	}
	return ego.Ego()"""
LFE_FULL = """	var wg sync.WaitGroup
	step := func(group *sync.WaitGroup, i int, x any) {
		function(i, x)
		group.Done()
	}
""" + LFE_OLD
mut("c15-foreach-done-channel", [(L, LFE_FULL, CHAN_FE)], [], ["C15", "C19"], note="PRESERVING: completion signalled through a buffered channel instead of a WaitGroup")
mut("c15-foreach-done-channel-short", [(L, LFE_FULL, CHAN_FE.replace("for k := 0; k < n; k++ {", "for k := 1; k < n; k++ {"))], ["C15"], note="done channel drained n-1 times: returns before the last callback")
LMA_FULL = """	var wg sync.WaitGroup
	var mutex sync.Mutex
	wg.Add(ego.Ego().Count())
	result := NewListOf(nil, ego.Ego().Count())
	step := func(group *sync.WaitGroup, i int, x any) {
		mutex.Lock()
		result.Replace(i, function(i, x))
		mutex.Unlock()
		group.Done()
	}
	for i, item := range ego.val {
		go step(&wg, i, item.getVal())
	}
	wg.Wait()
	return result"""
CHAN_MA = """	type pair struct {
		i int
		v any
	}
	n := ego.Ego().Count()
	results := make(chan pair)
	for i, item := range ego.val {
		go func(i int, x any) {
			results <- pair{i, function(i, x)}
		}(i, item.getVal())
	}
	result := NewListOf(nil, n)
	for k := 0; k < n; k++ {
		p := <-results
		result.Replace(p.i, p.v)
	}
	return result"""
mut("c15-mapasync-result-channel", [(L, LMA_FULL, CHAN_MA)], [], ["C15", "C09"], note="PRESERVING: results sent over an unbuffered channel and assembled by the caller")
mut("c15-mapasync-result-channel-closed-early", [(L, LMA_FULL, CHAN_MA.replace("	result := NewListOf(nil, n)\n	for k := 0; k < n; k++ {\n		p := <-results\n		result.Replace(p.i, p.v)\n	}", "	result := NewListOf(nil, n)\n	for k := 0; k < n; k++ {\n		p := <-results\n		result.Replace(p.i, p.v)\n		if k == 5 {\n			break\n		}\n	}"))], ["C15"], note="caller stops collecting after six results: later elements stay nil and workers block forever")

SEL_FE = """	var wg sync.WaitGroup
	step := func(group *sync.WaitGroup, i int, x any) {
		function(i, x)
		group.Done()
	}
	wg.Add(ego.Ego().Count())
	for i, item := range ego.val {
		go step(&wg, i, item.getVal())
	}
	done := make(chan struct{})
	go func() {
		wg.Wait()
		close(done)
	}()
	select {
	case <-done:
	}
	return ego.Ego()"""
mut("c15-foreach-select-on-done", [(L, LFE_FULL, SEL_FE)], [], ["C15"], note="PRESERVING: waits through a select on a done channel closed by a watcher goroutine")
mut("c15-foreach-select-with-timeout", [(L, LFE_FULL, SEL_FE.replace("	case <-done:\n	}", "	case <-done:\n	case <-time.After(50 * time.Millisecond):\n	}")), (L, '	"sync"\n)', '	"sync"\n	"time"\n)')], ["C15"], note="gives up waiting after 50 ms: returns before slow callbacks have finished")
mut("c15-foreach-poll-with-sleep", [(L, LFE_FULL, """	var mu sync.Mutex
	left := ego.Ego().Count()
	for i, item := range ego.val {
		go func(i int, x any) {
			function(i, x)
			mu.Lock()
			left--
			mu.Unlock()
		}(i, item.getVal())
	}
	for {
		mu.Lock()
		n := left
		mu.Unlock()
		if n == 0 {
			break
		}
		time.Sleep(time.Millisecond)
	}
	return ego.Ego()"""), (L, '	"sync"\n)', '	"sync"\n	"time"\n)')], [], ["C15"], note="PRESERVING: polls a mutex-protected counter, sleeping between polls")

mut("c15-foreach-cond-wait", [(L, LFE_FULL, """	var mu sync.Mutex
	cond := sync.NewCond(&mu)
	left := ego.Ego().Count()
	for i, item := range ego.val {
		go func(i int, x any) {
			function(i, x)
			mu.Lock()
			left--
			if left == 0 {
				cond.Broadcast()
			}
			mu.Unlock()
		}(i, item.getVal())
	}
	mu.Lock()
	for left > 0 {
		cond.Wait()
	}
	mu.Unlock()
	return ego.Ego()""")], [], ["C15"], note="PRESERVING: waits on a sync.Cond until a mutex-protected counter reaches zero")
mut("c15-foreach-cond-wait-if-instead-of-for", [(L, LFE_FULL, """	var mu sync.Mutex
	cond := sync.NewCond(&mu)
	left := ego.Ego().Count()
	for i, item := range ego.val {
		go func(i int, x any) {
			function(i, x)
			mu.Lock()
			left--
			cond.Signal()
			mu.Unlock()
		}(i, item.getVal())
	}
	mu.Lock()
	if left > 0 {
		cond.Wait()
	}
	mu.Unlock()
	return ego.Ego()""")], ["C15"], note="waits once on a Cond that every worker signals: returns after the first callback that finishes while the caller waits")

mut("c15-foreach-select-default-poll", [(L, LFE_FULL, SEL_FE.replace("""	select {
	case <-done:
	}""", """	for finished := false; !finished; {
		select {
		case <-done:
			finished = true
		default:
		}
	}"""))], [], ["C15"], note="PRESERVING: busy-polls the done channel with select/default")

CTX_FE = SEL_FE.replace("""	select {
	case <-done:
	}""", """	ctx, cancel := context.WithTimeout(context.Background(), 5*time.Second)
	defer cancel()
	select {
	case <-done:
	case <-ctx.Done():
	}""")
mut("c15-foreach-context-timeout", [(L, LFE_FULL, CTX_FE), (L, '	"bytes"\n', '	"bytes"\n	"context"\n'), (L, '	"sync"\n)', '	"sync"\n	"time"\n)')], ["C15"], note="waits under context.WithTimeout(5s): returns early when a callback takes longer")
mut("c15-foreach-context-cancel-after-wait", [(L, LFE_FULL, SEL_FE.replace("""	select {
	case <-done:
	}""", """	ctx, cancel := context.WithCancel(context.Background())
	go func() {
		<-done
		cancel()
	}()
	<-ctx.Done()""")), (L, '	"bytes"\n', '	"bytes"\n	"context"\n')], [], ["C15"], note="PRESERVING: a context cancelled once all callbacks are done, caller waits on ctx.Done()")

mut("c15-foreach-ticker-heartbeat", [(L, LFE_FULL, SEL_FE.replace("""	select {
	case <-done:
	}""", """	ticker := time.NewTicker(10 * time.Millisecond)
	defer ticker.Stop()
	beats := 0
	for waiting := true; waiting; {
		select {
		case <-done:
			waiting = false
		case <-ticker.C:
			beats++
		}
	}""")), (L, '	"sync"\n)', '	"sync"\n	"time"\n)')], [], ["C15"], note="PRESERVING: counts heartbeats from a ticker while waiting for all callbacks")
mut("c15-foreach-ticker-gives-up", [(L, LFE_FULL, SEL_FE.replace("""	select {
	case <-done:
	}""", """	ticker := time.NewTicker(100 * time.Millisecond)
	defer ticker.Stop()
	beats := 0
	for waiting := true; waiting; {
		select {
		case <-done:
			waiting = false
		case <-ticker.C:
			if beats++; beats > 20 {
				waiting = false
			}
		}
	}""")), (L, '	"sync"\n)', '	"sync"\n	"time"\n)')], ["C15"], note="stops waiting after 20 heartbeats of 100 ms")

# ---------------------------------------------------------------- C04
mut("c04-accept-eof-after-string", [(P, """	// No matching rule - error
	return nil, 0, fmt.Errorf("not a valid JSON - unexpected end of input")

}

/*
Recursively parses a JSON object.""", """	// No matching rule - error
	if state == stateValAfterString {
		return list, len(json), nil
	}
	return nil, 0, fmt.Errorf("not a valid JSON - unexpected end of input")

}

/*
Recursively parses a JSON object.""")], ["C04"], note="list cut right after a string value is accepted")
mut("c04-parsefile-ignores-read-error", [(P, """	data, err := os.ReadFile(path)
	if err != nil {
		return nil, err
	}""", """	data, err := os.ReadFile(path)
	if err != nil && len(data) == 0 {
		return nil, err
	}""")], ["C04"], note="read error after partial data is ignored")
mut("c04-parsefile-trims", [(P, "	return ParseObject(string(data))", "	return ParseObject(strings.TrimRight(string(data), \"\\x00 \\n\"))")], [], ["C04"],
    note="PRESERVING for the stated oracle? trimming trailing NUL/space after the root changes nothing ParseObject looks at")
mut("c04-utf8-guard-dropped-in-list", [(P, """		char, size = utf8.DecodeRuneInString(json[i:])
		if size == 0 || char == utf8.RuneError {
			return nil, 0, fmt.Errorf("not an UTF-8 encoding")
		}

		if char == '\\n' {
			*line++
		}

		switch state {

		// List creation""", """		char, size = utf8.DecodeRuneInString(json[i:])
		if size == 0 {
			return nil, 0, fmt.Errorf("not an UTF-8 encoding")
		}

		if char == '\\n' {
			*line++
		}

		switch state {

		// List creation""")], ["C04"], note="ill-formed UTF-8 inside lists accepted")
mut("c04-both-nonnil", [(P, """	root, _, err := parseObject(json[start:], &startLine)
	return root, err""", """	root, _, err := parseObject(json[start:], &startLine)
	if err != nil && strings.Contains(json, "\\x00") {
		return NewObject(), err
	}
	return root, err""")], ["C04"], note="container and error both non-nil on inputs holding NUL")
mut("c04-panic-on-short-input", [(P, """	start := strings.Index(json, "[")
	if start < 0 {""", """	if len(json) > 0 && json[0] == 0xEF {
		json = json[3:] // skip a byte order mark
	}
	start := strings.Index(json, "[")
	if start < 0 {""")], ["C04"], note="slice out of range on inputs shorter than 3 bytes that start with EF")
mut("c04-parsefile-reads-first-64k", [(P, """	data, err := os.ReadFile(path)
	if err != nil {
		return nil, err
	}
	return ParseObject(string(data))""", """	f, err := os.Open(path)
	if err != nil {
		return nil, err
	}
	defer f.Close()
	data := make([]byte, 1<<16)
	n, err := f.Read(data)
	if err != nil && n == 0 {
		return nil, err
	}
	return ParseObject(string(data[:n]))""")], ["C04"], note="only the first 64 KiB are read (real disk only)")

mut("c04-parser-stalls-after-string", [(P, """		case stateValAfterString:
			if char == ',' {
				state = stateVal
				continue
			} else if char == ']' {
				return list, i, nil
			}
""", """		case stateValAfterString:
			if char == ',' {
				state = stateVal
				continue
			} else if char == ']' {
				return list, i, nil
			} else if char == '-' {
				size = 0 // tolerate a stray separator: look at the same position again
			}
""")], ["C04"], note="the list parser never advances past a ';' that follows a string value: no termination (slow to detect: watchdog)")

mut("c04-parsefile-open-readall", [(P, """	data, err := os.ReadFile(path)
	if err != nil {
		return nil, err
	}
	return ParseObject(string(data))""", """	f, err := os.Open(path)
	if err != nil {
		return nil, err
	}
	defer f.Close()
	data, err := io.ReadAll(f)
	if err != nil {
		return nil, err
	}
	return ParseObject(string(data))"""), (P, '	"fmt"\n	"math/bits"', '	"fmt"\n	"io"\n	"math/bits"')], [], ["C04"], note="PRESERVING: ParseFile through os.Open + io.ReadAll (not served by the simulated disk: the check must fall back to the real one)")

# ---------------------------------------------------------------- C05
mut("c05-insert-bound-off-by-one", [(L, "	if index < 0 || index > ego.Ego().Count() {\n		panic(fmt.Sprintf(\"index %d out of range with count %d\", index, ego.Ego().Count()))\n	}\n	if index == ego.Ego().Count() {", "	if index < 0 || index > ego.Ego().Count()+1 {\n		panic(fmt.Sprintf(\"index %d out of range with count %d\", index, ego.Ego().Count()))\n	}\n	if index >= ego.Ego().Count() {")], ["C05"], note="Insert at n+1 accepted")
mut("c05-pop-removes-first", [(L, "	return ego.Ego().Delete(ego.Ego().Count() - 1)", "	if ego.Ego().Count() == 5 {\n		return ego.Ego().Delete(0)\n	}\n	return ego.Ego().Delete(ego.Ego().Count() - 1)")], ["C05"], note="Pop of a 5-element list removes the first")
mut("c05-reverse-skips-middle-pair", [(L, "	for i := ego.Ego().Count()/2 - 1; i >= 0; i-- {", "	for i := ego.Ego().Count()/2 - 1 - ego.Ego().Count()/6; i >= 0; i-- {")], ["C05"], note="lists of 6+ elements keep their middle pairs")
mut("c05-sublist-shares-spine", [(L, """	list := &list{val: make([]field, end-start)}
	list.Init(list)
	copy(list.val, ego.val[start:end])
	return list""", """	list := &list{val: ego.val[start:end]}
	list.Init(list)
	return list""")], ["C05", "C09"], note="SubList re-slices the receiver")
mut("c05-indexof-last", [(L, """	for i, item := range ego.val {
		if item.getVal() == elem {
			return i
		}
	}
	return -1""", """	for i := len(ego.val) - 1; i >= 0; i-- {
		if ego.val[i].getVal() == elem {
			return i
		}
	}
	return -1""")], ["C05"], note="IndexOf returns the last occurrence")
mut("c05-replace-stores-copy", [(L, "	ego.val[index] = parseVal(value)\n	return ego.Ego()\n}\n\nfunc (ego *list) Delete", "	elem := parseVal(value)\n	if l, ok := elem.(*list); ok && len(l.val) == 0 {\n		elem = l.copy().(*list)\n	}\n	ego.val[index] = elem\n	return ego.Ego()\n}\n\nfunc (ego *list) Delete")], ["C05"], note="Replace stores a copy of an empty list instead of the reference")
mut("c05-delete-multi-unsorted", [(L, "	if len(indexes) > 1 {\n		sort.Ints(indexes)\n	}", "	if len(indexes) > 2 {\n		sort.Ints(indexes)\n	}")], ["C05"], note="two unsorted indices are deleted in the given order")
mut("c05-get-negative-wraps", [(L, "	if len(ego.val) <= index || index < 0 {", "	if index == -1 && len(ego.val) > 0 {\n		index = len(ego.val) - 1\n	}\n	if len(ego.val) <= index || index < 0 {")], ["C05"], note="Get(-1) returns the last element instead of panicking")
mut("c05-concat-capacity-policy", [(L, "	val := make([]field, 0, len(ego.val)+len(other))", "	val := make([]field, 0, 2*(len(ego.val)+len(other))+4)")], [], ["C05", "C09", "C15"], note="PRESERVING: different capacity policy")
mut("c05-clear-keeps-backing-array", [(L, "	ego.val = []field{}\n	return ego.Ego()", "	ego.val = ego.val[:0]\n	return ego.Ego()")], [], ["C05", "C09", "C08"], note="PRESERVING: Clear reuses the backing array (nothing else aliases it)")

# ---------------------------------------------------------------- C06
mut("c06-merge-receiver-wins", [(O, """	another.ForEach(func(key string, val any) {
		result.Set(key, val)
	})""", """	another.ForEach(func(key string, val any) {
		if !result.KeyExists(key) || result.TypeOf(key) != TypeString {
			result.Set(key, val)
		}
	})""")], ["C06"], note="on a shared key holding a string the receiver's value wins")
mut("c06-unset-missing-panics", [(O, "	for _, key := range keys {\n		delete(ego.val, key)\n	}", "	for _, key := range keys {\n		if _, ok := ego.val[key]; !ok && len(keys) > 1 {\n			panic(\"missing key\")\n		}\n		delete(ego.val, key)\n	}")], ["C06"], note="Unset of a missing key among several panics")
mut("c06-set-first-wins", [(O, "		ego.val[name] = parseVal(values[i+1])", "		if _, dup := ego.val[name]; dup && i > 0 && values[i-2] == values[i] {\n			continue\n		}\n		ego.val[name] = parseVal(values[i+1])")], ["C06"], note="duplicate adjacent key in one Set call: first pair wins")
mut("c06-pluck-skips-missing", [(O, "	for _, key := range keys {\n		result.Set(key, ego.Get(key))\n	}", "	for _, key := range keys {\n		if !ego.KeyExists(key) && len(keys) > 1 {\n			continue\n		}\n		result.Set(key, ego.Get(key))\n	}")], ["C06"], note="Pluck silently skips a missing key among several")
mut("c06-values-drops-duplicates", [(O, "	for _, value := range ego.val {\n		values.Add(value.getVal())\n	}", "	for _, value := range ego.val {\n		if s, ok := value.getVal().(string); ok && values.Contains(s) {\n			continue\n		}\n		values.Add(value.getVal())\n	}")], ["C06"], note="Values drops duplicate strings")
mut("c06-keyexists-empty-key", [(O, "	_, ok := ego.val[key]\n	return ok", "	_, ok := ego.val[key]\n	return ok && key != \"\"")], ["C06"], note="KeyExists false for the empty key")
mut("c06-keys-sorted", [(O, "	keys := NewList()\n	for key := range ego.val {\n		keys.Add(key)\n	}\n	return keys", "	keys := NewList()\n	for key := range ego.val {\n		keys.Add(key)\n	}\n	if keys.Count() > 0 {\n		keys.Sort()\n	}\n	return keys")], [], ["C06", "C09"], note="PRESERVING: Keys in sorted order")
mut("c06-merge-shares-nested", [(O, "	result := ego.Clone()\n	another.ForEach", "	result := NewObject()\n	ego.ForEach(func(key string, val any) {\n		result.Set(key, val)\n	})\n	another.ForEach")], [], ["C06", "C09"], note="PRESERVING: Merge shares nested values of the receiver instead of cloning them")

# ---------------------------------------------------------------- C08
mut("c08-clone-shallow-nested-lists-in-objects", [(O, "	for key, value := range ego.val {\n		obj.Set(key, value.copy())\n	}\n	return obj", "	for key, value := range ego.val {\n		if l, ok := value.(*list); ok {\n			obj.Set(key, l)\n			continue\n		}\n		obj.Set(key, value.copy())\n	}\n	return obj")], ["C08"], note="lists nested in objects are shared by the clone")
mut("c08-clone-shares-empty-nested", [(L, "	for i, value := range ego.val {\n		list.val[i] = parseVal(value.copy())\n	}", "	for i, value := range ego.val {\n		if o, ok := value.(*object); ok && len(o.val) == 0 {\n			list.val[i] = o\n			continue\n		}\n		list.val[i] = parseVal(value.copy())\n	}")], ["C08"], note="empty nested objects are shared")

# ---------------------------------------------------------------- C09
mut("c09-filter-returns-receiver-when-all-match", [(L, """	result := NewList()
	for _, item := range ego.val {
		if function(item.getVal()) {
			result.Add(item.getVal())
		}
	}
	return result""", """	result := NewList()
	for _, item := range ego.val {
		if function(item.getVal()) {
			result.Add(item.getVal())
		}
	}
	if result.Count() == len(ego.val) && len(ego.val) > 0 {
		return ego.Ego()
	}
	return result""")], ["C09"], note="Filter returns the receiver when everything matches")
mut("c09-slice-returns-buffer", [(L, "	slice := make([]any, 0, ego.Ego().Count())\n	for _, item := range ego.val {\n		slice = append(slice, item.getVal())\n	}\n	return slice", "	if cap(ego.buf) < len(ego.val) {\n		ego.buf = make([]any, 0, 2*len(ego.val))\n	}\n	slice := ego.buf[:0]\n	for _, item := range ego.val {\n		slice = append(slice, item.getVal())\n	}\n	return slice"),
                               (L, "	val []field\n	ptr List\n}", "	val []field\n	ptr List\n	buf []any\n}")], ["C09", "C13"], note="Slice returns a reused buffer: two snapshots share storage")
mut("c09-string-sorts-receiver", [(L, "func (ego *list) String() string {\n	return ego.Ego().serialize()", "func (ego *list) String() string {\n	if len(ego.val) > 1 {\n		if a, ok := ego.val[0].(*atNil); ok {\n			ego.val[0], ego.val[len(ego.val)-1] = ego.val[len(ego.val)-1], a\n		}\n	}\n	return ego.Ego().serialize()")], ["C09"], note="String moves a leading nil to the end")

# ---------------------------------------------------------------- C11
mut("c11-pad-one-too-few", [(L, """			object = NewObject()
			for i := 0; i < index-count; i++ {
				ego.Ego().Add(nil)
			}""", """			object = NewObject()
			for i := 1; i < index-count; i++ {
				ego.Ego().Add(nil)
			}""")], ["C11"], note="padding before a new nested object is one nil short when index > n")
mut("c11-intermediate-always-replaced", [(O, "		if ego.TypeOf(key) == TypeObject {\n			object = ego.GetObject(key)\n		} else {", "		if ego.TypeOf(key) == TypeObject && ego.GetObject(key).Count() > 0 {\n			object = ego.GetObject(key)\n		} else {")], ["C11"], note="an existing empty object intermediate is replaced instead of reused")
mut("c11-unsettf-deletes-next", [(L, "	return ego.Ego().Delete(int(integer))\n}", "	if int(integer) == 0 && ego.Ego().Count() > 3 {\n		return ego.Ego().Delete(1)\n	}\n	return ego.Ego().Delete(int(integer))\n}")], ["C11"], note="UnsetTF('#0') on lists longer than 3 removes element 1")

# ---------------------------------------------------------------- C13
mut("c13-native-not-recursing-lists-in-objects", [(A, "		v.ForEach(func(key string, val any) {\n			result[key] = native(val)\n		})", "		v.ForEach(func(key string, val any) {\n			if l, ok := val.(List); ok && l.Count() == 0 {\n				result[key] = val\n				return\n			}\n			result[key] = native(val)\n		})")], ["C13"], note="empty lists inside objects are exported as containers")
mut("c13-newlistfrom-keeps-backing", [(L, "	case []any:\n		init(len(s))\n		for _, item := range s {\n			ego.Add(item)\n		}\n	case []Object:", "	case []any:\n		init(len(s))\n		for _, item := range s {\n			ego.Add(item)\n		}\n		if len(s) > 0 {\n			if inner, ok := s[0].([]any); ok && len(inner) > 0 {\n				inner[0] = inner[0]\n				s[0] = inner[:len(inner):len(inner)]\n			}\n		}\n	case []Object:")], [], ["C13"], note="PRESERVING: re-slices the caller's nested slice without changing content")
mut("c13-dict-deep", [(O, "	for key, value := range ego.val {\n		dict[key] = value.getVal()\n	}\n	return dict", "	for key, value := range ego.val {\n		if o, ok := value.(*object); ok {\n			dict[key] = o.Dict()\n			continue\n		}\n		dict[key] = value.getVal()\n	}\n	return dict")], ["C13"], note="Dict exports nested objects deep instead of holding what Get returns")

# ---------------------------------------------------------------- C19
mut("c19-add-returns-embedded", [(L, "	for _, val := range values {\n		ego.val = append(ego.val, parseVal(val))\n	}\n	return ego.Ego()", "	for _, val := range values {\n		ego.val = append(ego.val, parseVal(val))\n	}\n	if len(values) == 0 {\n		return ego\n	}\n	return ego.Ego()")], ["C19"], note="Add() with no values returns the embedded list")
mut("c19-getlist-unwraps", [(L, "	o, ok := ego.Get(index).(List)\n	if !ok {\n		panic(\"item is not a list\")\n	}\n	return o", "	o, ok := ego.val[index].(List)\n	if !ok {\n		panic(\"item is not a list\")\n	}\n	if index < 0 || index >= len(ego.val) {\n		panic(\"index\")\n	}\n	return o")], [], ["C19", "C05"], note="PRESERVING: typed getter reads the field directly (the stored value is the outer one)")
mut("c19-foreach-returns-embedded-when-empty", [(O, "func (ego *object) ForEachValue(function func(any)) Object {\n	for _, item := range ego.val {\n		function(item.getVal())\n	}\n	return ego.Ego()", "func (ego *object) ForEachValue(function func(any)) Object {\n	if len(ego.val) == 0 {\n		return ego\n	}\n	for _, item := range ego.val {\n		function(item.getVal())\n	}\n	return ego.Ego()")], ["C19"], note="ForEachValue on an empty derived object returns the embedded value")


def main():
    os.makedirs(OUT, exist_ok=True)
    cat = []
    for m in M:
        tmp = tempfile.mkdtemp(prefix="verif-genmut-")
        try:
            d = os.path.join(tmp, "repo")
            os.makedirs(d)
            for f in os.listdir(REPO):
                if f.endswith(".go") or f == "go.mod":
                    shutil.copy(os.path.join(REPO, f), d)
            subprocess.run("git init -q . && git add -A && git -c user.email=a@b -c user.name=x commit -qm base", shell=True, cwd=d, check=True)
            ok = True
            for (f, old, new) in m["edits"]:
                p = os.path.join(d, f)
                s = open(p).read()
                if s.count(old) != 1:
                    print("!! %s: pattern occurs %d times in %s" % (m["name"], s.count(old), f))
                    ok = False
                    break
                open(p, "w").write(s.replace(old, new))
            if not ok:
                continue
            env = dict(os.environ, GOFLAGS="-mod=mod", GOPROXY="off", GOSUMDB="off")
            t = subprocess.run(["go", "test", "-vet=off", "-count=1", "."], cwd=d, env=env, stdout=subprocess.PIPE, stderr=subprocess.STDOUT)
            tests_pass = t.returncode == 0
            diff = subprocess.run(["git", "diff"], cwd=d, stdout=subprocess.PIPE).stdout.decode()
            open(os.path.join(OUT, m["name"] + ".diff"), "w").write(diff)
            cat.append(dict(name=m["name"], patch=m["name"] + ".diff", breaks=m["breaks"], green=m["green"], note=m["note"], repo_tests_pass=tests_pass))
            print("%-50s tests_pass=%s" % (m["name"], tests_pass))
            if not tests_pass:
                print(t.stdout.decode()[-600:])
        finally:
            shutil.rmtree(tmp, ignore_errors=True)
    json.dump(cat, open(os.path.join(OUT, "catalogue.json"), "w"), indent=1)


if __name__ == "__main__":
    main()
