#!/usr/bin/env python3
"""Regenerates /verif/MANIFEST.json (kept as a script so that the file stays consistent and valid)."""
import json, os
V = os.path.dirname(os.path.dirname(os.path.abspath(__file__)))
checks = []
def chk(pid, engine, cat, text, note, tech, ref):
    checks.append({"property_id": pid, "quick_cmd": "./check %s" % pid, "thorough_cmd": "./check %s --tier thorough" % pid,
                   "evidence_file": "/verif/evidence/%s.json" % pid, "replay_cmd_template": "./check %s --replay {path}" % pid, "engine": engine,
                   "level_claimed": {"category": cat, "text": text, "design_ref": ref}, "level_note": note, "technique": tech})

HIST_NOTE = ("The library is single-threaded here, so the schedule/fault half of the technique contributes injected rejected operations "
             "(atomicity oracle), seeded map order, the scheduler for async operations inside histories, simulated time passing between operations and "
             "garbage collections at drawn points; the rest is conformance checking of seeded operation histories against an executable reference model "
             "(S3 ShardStore style). A third of the histories read the whole heap only after every k-th operation (sparse reads); observe-mutate-observe "
             "sandwiches on one container are generated on purpose. Trusts: the reference model (DESIGN.md appendix B), the rewrite rules (fidelity-tested). "
             "Sampled, not exhaustive; typical heaps hold up to 32 containers of up to 16 slots, size classes go up to 70000 elements and 16385 containers; "
             "histories have up to 40 (quick) / 200 (thorough) steps. A run that does not come back within the watchdog and not within 120 s alone either "
             "is reported as a violation (no-termination); everything else the watchdog sees is exit 2.")
HIST_TECH = "deterministic simulation: seeded operation histories with injected failing operations against a reference model, whole-heap invariant after every step, minimised replayable traces"

chk("C04", "disk", "fault_enumeration",
    "Writer/disk/reader simulation: documents serialised by the library itself (compact, pretty-printed, re-spaced or with foreign escape spellings) are stored on a simulated (and a real) disk; every torn-write cut point of every sampled compact document is enumerated and must be rejected, ill-formed UTF-8 is injected at drawn positions and must be rejected, storage corruption (bit flips, lost/duplicated spans, zeroed tails, garbage, re-encodings) and read faults (ENOENT, EACCES, EISDIR, EIO with partial data; short reads for trees that read through os.Open) are injected and the outcome must be total, exclusive, repeatable and identical between ParseFile and ParseObject, also for several simulated clients parsing different inputs at the same time (a second phase runs that class under the race detector). Enumeration of cut points per document is exhaustive; documents and corruptions are sampled.",
    "Trusts: the os.ReadFile / os.Open replacement rules R4 and R14 (ParseFile is also run against a real temporary directory, exclusively so when the tree reads files in a way the rules do not cover), the generator of documents (library's own String()/FormatString()). Cut points exhaustive for documents up to 1 KiB, sampled above; documents, corruptions, token soups, re-encodings, 65535..131073-value and many-distinct-token documents and environments (locale, time zone) sampled. A run that does not terminate is re-run alone for 120 s before it is reported.",
    "deterministic simulation: simulated disk with torn writes at every offset, stored-byte corruption, read faults and short reads, concurrent simulated readers, writer/reader oracle", "DESIGN.md §3 C04, appendix D, §11")
chk("C05", "hist", "exploration",
    "Seeded programs of list operations (valid and invalid arguments, rejected values as injected faults, lists grown past capacity, containers nested acyclically) run against the real List and a sequence-with-references model; after every step every live container must show exactly what the model predicts (whole-heap invariant), panics must occur exactly on out-of-domain indices/ranges, and a panicking single-index operation must leave every list unchanged.",
    HIST_NOTE, HIST_TECH, "DESIGN.md §2, §3 C05")
chk("C06", "hist", "exploration",
    "Seeded programs of object operations (arbitrary keys incl. empty/duplicate/odd ones, odd arity and non-string keys and rejected values as injected faults) against a map-with-references model under seeded map iteration orders; Set/Unset/Merge/Pluck/Keys/Values/Dict/Count must agree with the model after every step and panic exactly as stated.",
    HIST_NOTE, HIST_TECH, "DESIGN.md §2, §3 C06")
chk("C08", "hist", "exploration",
    "Clone at arbitrary points of a history: every container reachable from the result must be fresh (identical to no container that exists) and Equal both ways; afterwards arbitrary mutation histories (methods and tree-form paths) on either side must leave the other unchanged, which is the whole-heap invariant over clone-related nodes.",
    HIST_NOTE, HIST_TECH, "DESIGN.md §2, §3 C08")
chk("C09", "hist", "exploration",
    "Every deriving operation of the statement issued at arbitrary points of a growth history (receivers with spare capacity, two derivations of one receiver), Go-native results kept as mutable heap citizens; later mutations of receiver, argument and results must never change any of the others (whole-heap invariant, attributed by the derivation relation).",
    HIST_NOTE, HIST_TECH, "DESIGN.md §2, §3 C09")
chk("C11", "hist", "exploration",
    "Sequences of SetTF/UnsetTF with drawn well-formed paths (existing, partly existing, new; indices <, =, > n; wrong-kind intermediates) against a model that implements the statement literally; afterwards GetTF(p) must yield v, reused intermediates must be the identical containers, and nothing off the path may change (whole-heap frame check). UnsetTF on a non-resolving path must leave the heap unchanged.",
    HIST_NOTE, HIST_TECH, "DESIGN.md §2, §3 C11")
chk("C13", "hist", "exploration",
    "Native exports (NativeSlice/NativeDict deep, Slice/Dict/typed slices one level) and imports (NewListFrom/NewObjectFrom of every flavour) inside histories; the Go values stay in the harness's hands as heap citizens and are modified at any depth, containers are mutated too; export content must deep-equal the model and hold no container, imports must round-trip, and neither side may ever change the other.",
    HIST_NOTE, HIST_TECH, "DESIGN.md §2, §3 C13")
chk("C15", "async", "exploration",
    "Seeded search over goroutine schedules: every ForEachAsync/MapAsync call and every set of concurrent read-only clients runs under a token-passing scheduler that decides each interleaving from VERIF_SEED; the recorded history is checked for exactly-once delivery and return-after-all-callbacks, MapAsync is compared with Map, reader results with their sequential values, and ThreadSanitizer judges the library's own synchronisation on the serialised execution. Sampling of an unbounded schedule space is the right level: the property quantifies over all interleavings.",
    "Trusts: the reading of sync.WaitGroup/Mutex/RWMutex/Once, channel, select and timer semantics in simrt, ThreadSanitizer's happens-before analysis (bounded history), the rewrite rules R1-R3, R6-R13 (sync, go, map range, channels, select, Once/Cond, time, context, env, atomics, maps iterators; fidelity-tested with the repository's own tests; behaviour-preserving refactorings incl. channel- and select-based ones stay green). Sampled, not exhaustive; containers of 0..4097 elements, 2..10 reader clients, simulated clock with injected stalls; containers are also met cold (never read before the call / before the concurrent phase) and between sequential mutations. Reaching the step bound or the wall-clock watchdog is inconclusive (exit 2), never a violation; constructs the rewriter does not manage (sync/atomic values, reflect map iteration, labelled select) are reported in the evidence file.",
    "deterministic simulation: seeded token-passing scheduler over rewritten sync/go/map-range seams, history checking, happens-before race detection on the serialised run", "DESIGN.md §1.2, §3 C15")
chk("C19", "hist", "exploration",
    "User types embedding a List/Object one and two levels deep are ordinary citizens of the simulated heap: every fluent method (enumerated from the interfaces by reflection) must return the registered outer value, Ego too, and stored derived values must come back identical from Get, typed getters, GetTF, typed iteration, typed slices, typed filters, Values and Dict, inside arbitrary histories.",
    HIST_NOTE, HIST_TECH, "DESIGN.md §2, §3 C19")

na = [("C01", "pure function of one value tree (serialise then parse); no schedule, fault, I/O outcome or operation history for a simulator to decide"),
      ("C02", "pure function of one value tree compared with an independent decoder; nothing to simulate"),
      ("C03", "quantifies over grammar derivations of one input string; input generation, not simulation"),
      ("C07", "Equals is a relation on immutable trees; algebraic laws over inputs only"),
      ("C10", "GetTF/TypeOfTF are reads: a function of (tree, path string)"),
      ("C12", "normalisation of one inserted Go value by one call; per-call, per-value"),
      ("C14", "which elements a typed view visits is a function of one container value with pure callbacks"),
      ("C16", "FormatString(n) is a function of (tree, n); the 'configurations' are indent values, not I/O or schedules"),
      ("C17", "Sort/Reverse results are functions of one list value"),
      ("C18", "numeric folds of one list value"),
      ("C20", "the cited line number is a function of the input text")]
have = set(os.environ.get("VERIF_MANIFEST_CLAIMS", "C04 C05 C06 C08 C09 C11 C13 C15 C19").split())
pending = [(c["property_id"], "claimed in DESIGN.md; check under construction") for c in checks if c["property_id"] not in have]
checks = [c for c in checks if c["property_id"] in have]
m = {"version": 1, "setup_cmd": "./check setup",
     "hooks": {"guard": "none (no in-repo hooks: seams are swapped at check time in a scratch copy by bin/simrewrite)",
               "enable": "./check copies the working tree of /repo to a mktemp directory, rewrites the sync / go / range-over-map / channel / select / time / context / os.ReadFile / os.Open seams of the root package to verif.local/simrt (bin/simrewrite, rules R1-R14) and builds the harness against that copy with -modfile",
               "baseline_off_cmd": "cd /repo && GOFLAGS=-mod=mod GOPROXY=off GOSUMDB=off go test -json -vet=off -count=1 -timeout 25m ./...",
               "source_commits": [], "add_only": True},
     "engines": [{"name": "async", "path": "harness/async.go", "serves_properties": ["C15"], "kind_free_text": "seeded goroutine schedules, concurrent readers, race detection on the serialised execution"},
                 {"name": "hist", "path": "harness/hist_*.go", "serves_properties": ["C05", "C06", "C08", "C09", "C11", "C13", "C19"], "kind_free_text": "seeded operation histories against a reference model with whole-heap invariant"},
                 {"name": "disk", "path": "harness/disk.go", "serves_properties": ["C04"], "kind_free_text": "torn writes at every cut point, stored-byte corruption, read faults on simulated and real disk"}],
     "checks": checks,
     "notes": "See DESIGN.md. Exit 2 = harness trouble (never a verdict). known_findings.json lists fixed/known findings; three genuine defects were repaired with fix: commits in /repo.",
     "not_applicable": [{"property_id": p, "reason": r} for p, r in na + pending]}
json.dump(m, open(os.path.join(V, "MANIFEST.json"), "w"), indent=1)
print("wrote MANIFEST.json with", len(checks), "checks")
