#!/usr/bin/env python3
"""Confirm a seeded breaking change and run the checks against it.

usage: tools/seed.py <id> <property> <patch.diff> <demo_test.go> "<what it needs to manifest>" [--also C05,C09] [--tier quick|thorough]

In a scratch copy of /repo (never /repo itself): the patch applies, the repository's tests pass with it,
the demonstration fails with it and passes without it. Then the property's check (and the --also checks)
run against the patched copy (VERIF_REPO). Everything is recorded in /verif/seeded/<id>/.
"""
import json, os, re, shutil, subprocess, sys, tempfile, time

V = os.path.dirname(os.path.dirname(os.path.abspath(__file__)))
ENV = dict(os.environ, GOFLAGS="-mod=mod", GOPROXY="off", GOSUMDB="off", GOTOOLCHAIN="local")


def sh(cmd, cwd, env=ENV, timeout=1800):
    p = subprocess.run(cmd, cwd=cwd, env=env, stdout=subprocess.PIPE, stderr=subprocess.STDOUT, timeout=timeout)
    return p.returncode, p.stdout.decode(errors="replace")


def main():
    a = sys.argv[1:]
    sid, prop, patch, demo, needs = a[0], a[1], os.path.abspath(a[2]), os.path.abspath(a[3]), a[4]
    also, tier = [], "quick"
    if "--also" in a:
        also = a[a.index("--also") + 1].split(",")
    if "--tier" in a:
        tier = a[a.index("--tier") + 1]
    tmp = tempfile.mkdtemp(prefix="verif-seed-")
    meta = {"id": sid, "property": prop, "needs": needs, "ran": []}
    try:
        d = os.path.join(tmp, "repo")
        shutil.copytree("/repo", d, ignore=shutil.ignore_patterns(".git", "*.md", "LICENSE"), symlinks=True)
        sh(["git", "init", "-q", "."], d)
        demoname = os.path.basename(demo)
        # 1. demo passes without the patch
        shutil.copy(demo, os.path.join(d, demoname))
        testname = re.search(r"func (Test\w+)\(", open(demo).read()).group(1)
        race = ["-race"] if "-race" in needs or prop == "C15" else []
        rc, out = sh(["go", "test", "-vet=off", "-count=1", "-run", "^" + testname + "$", "."] + race, d)
        meta["demo_passes_without_patch"] = rc == 0
        meta["ran"].append("go test -run %s %s (clean copy): rc=%d" % (testname, " ".join(race), rc))
        os.remove(os.path.join(d, demoname))
        # 2. patch applies, repo tests pass
        rc, out = sh(["git", "apply", "--whitespace=nowarn", "--include=*.go", "--include=go.mod", "--include=go.sum", patch], d)
        if rc != 0:
            print("patch does not apply:", out)
            return 2
        rc, out = sh(["go", "test", "-vet=off", "-count=1", "./..."], d)
        meta["repo_tests_pass_with_patch"] = rc == 0
        meta["ran"].append("go test ./... (patched copy): rc=%d" % rc)
        # 3. demo fails with the patch
        shutil.copy(demo, os.path.join(d, demoname))
        fails = 0
        tries = 5 if prop == "C15" else 1
        for _ in range(tries):
            rc, out = sh(["go", "test", "-vet=off", "-count=1", "-run", "^" + testname + "$", "."] + race, d)
            fails += rc != 0
        meta["demo_fails_with_patch"] = "%d/%d" % (fails, tries)
        meta["ran"].append("go test -run %s %s (patched copy): failed %d/%d" % (testname, " ".join(race), fails, tries))
        os.remove(os.path.join(d, demoname))
        # 4. the checks
        env = dict(os.environ, VERIF_REPO=d, VERIF_EVIDENCE_DIR=os.path.join(tmp, "evidence"))
        meta["checks"] = {}
        for p in [prop] + also:
            t0 = time.time()
            rc, out = sh([os.path.join(V, "check"), p, "--tier", tier], V, env=env, timeout=7200)
            sigs = re.findall(r"^\s+(C\d\d/\S+): ", out, re.M)
            viol = re.findall(r"^VIOLATION property=(\S+) replay=(\S+)", out, re.M)
            meta["checks"][p] = {"tier": tier, "exit": rc, "violations": len(viol), "signatures": sorted(set(sigs)), "wall_s": round(time.time() - t0, 1),
                                 "tail": out.strip().splitlines()[-1] if out.strip() else ""}
            meta["ran"].append("VERIF_REPO=<patched copy> ./check %s --tier %s: exit %d, %d violation(s) %s" % (p, tier, rc, len(viol), sorted(set(sigs))))
            print("check %s: exit %d  %s" % (p, rc, sorted(set(sigs))))
            if rc == 2:
                print(out[-1500:])
        meta["detected_by"] = [p for p, r in meta["checks"].items() if r["exit"] == 1]
        ok = meta["demo_passes_without_patch"] and meta["repo_tests_pass_with_patch"] and fails > 0
        meta["confirmed"] = ok
        out_dir = os.path.join(V, "seeded", sid)
        os.makedirs(out_dir, exist_ok=True)
        shutil.copy(patch, os.path.join(out_dir, "patch.diff"))
        shutil.copy(demo, os.path.join(out_dir, demoname))
        old = {}
        mp = os.path.join(out_dir, "meta.json")
        if os.path.exists(mp):
            old = json.load(open(mp))
            meta["history"] = old.get("history", []) + [{"checks": old.get("checks"), "detected_by": old.get("detected_by")}]
        json.dump(meta, open(mp, "w"), indent=1)
        print("confirmed=%s tests_pass=%s demo_clean_pass=%s demo_patch_fail=%s detected_by=%s" % (
            ok, meta["repo_tests_pass_with_patch"], meta["demo_passes_without_patch"], meta["demo_fails_with_patch"], meta["detected_by"]))
        return 0
    finally:
        shutil.rmtree(tmp, ignore_errors=True)


if __name__ == "__main__":
    sys.exit(main())
