package simrt

import (
	"sync"
	"unsafe"
)

// WaitGroup replaces sync.WaitGroup in the rewritten library. In a run the
// counter lives in the scheduler; the happens-before edges the real type
// publishes (Done -> Wait) are published explicitly so that the race detector
// sees the library's synchronisation and nothing else.
type WaitGroup struct {
	real sync.WaitGroup
}

func (wg *WaitGroup) Add(delta int) {
	s := cur.Load()
	if s == nil {
		wg.real.Add(delta)
		return
	}
	if delta < 0 {
		raceReleaseMerge(unsafe.Pointer(wg))
	}
	s.call(req{kind: kAdd, obj: unsafe.Pointer(wg), n: delta})
}

func (wg *WaitGroup) Done() { wg.Add(-1) }

func (wg *WaitGroup) Wait() {
	s := cur.Load()
	if s == nil {
		wg.real.Wait()
		return
	}
	s.call(req{kind: kWait, obj: unsafe.Pointer(wg)})
	raceAcquire(unsafe.Pointer(wg))
}

// Mutex replaces sync.Mutex.
type Mutex struct {
	real sync.Mutex
}

func (m *Mutex) Lock() {
	s := cur.Load()
	if s == nil {
		m.real.Lock()
		return
	}
	s.call(req{kind: kLock, obj: unsafe.Pointer(m)})
	raceAcquire(unsafe.Pointer(m))
}

func (m *Mutex) TryLock() bool {
	s := cur.Load()
	if s == nil {
		return m.real.TryLock()
	}
	if s.call(req{kind: kTryLock, obj: unsafe.Pointer(m)}).v == 1 {
		raceAcquire(unsafe.Pointer(m))
		return true
	}
	return false
}

func (m *Mutex) Unlock() {
	s := cur.Load()
	if s == nil {
		m.real.Unlock()
		return
	}
	raceRelease(unsafe.Pointer(m))
	s.call(req{kind: kUnlock, obj: unsafe.Pointer(m)})
}

// RWMutex replaces sync.RWMutex. Readers synchronise with writers only.
type RWMutex struct {
	real sync.RWMutex
	r    uint32 // address used for the reader -> writer edge
}

func (m *RWMutex) Lock() {
	s := cur.Load()
	if s == nil {
		m.real.Lock()
		return
	}
	s.call(req{kind: kLock, obj: unsafe.Pointer(m)})
	raceAcquire(unsafe.Pointer(m))
	raceAcquire(unsafe.Pointer(&m.r))
}

func (m *RWMutex) Unlock() {
	s := cur.Load()
	if s == nil {
		m.real.Unlock()
		return
	}
	raceRelease(unsafe.Pointer(m))
	s.call(req{kind: kUnlock, obj: unsafe.Pointer(m)})
}

func (m *RWMutex) RLock() {
	s := cur.Load()
	if s == nil {
		m.real.RLock()
		return
	}
	s.call(req{kind: kRLock, obj: unsafe.Pointer(m)})
	raceAcquire(unsafe.Pointer(m))
}

func (m *RWMutex) RUnlock() {
	s := cur.Load()
	if s == nil {
		m.real.RUnlock()
		return
	}
	raceReleaseMerge(unsafe.Pointer(&m.r))
	s.call(req{kind: kRUnlock, obj: unsafe.Pointer(m)})
}

// RLocker mirrors sync.RWMutex.RLocker.
func (m *RWMutex) RLocker() sync.Locker { return (*rlocker)(m) }

type rlocker RWMutex

func (r *rlocker) Lock()   { (*RWMutex)(r).RLock() }
func (r *rlocker) Unlock() { (*RWMutex)(r).RUnlock() }

// Cond replaces sync.Cond. As in the real type a waiter joins the notify list before it releases the lock, so a
// Signal issued between the unlock and the park is not lost.
type Cond struct {
	L    sync.Locker
	real *sync.Cond
}

func NewCond(l sync.Locker) *Cond { return &Cond{L: l, real: sync.NewCond(l)} }

func (c *Cond) Wait() {
	s := cur.Load()
	if s == nil {
		c.real.Wait()
		return
	}
	t := s.call(req{kind: kCondAdd, obj: unsafe.Pointer(c)}).v
	c.L.Unlock()
	s.call(req{kind: kCondWait, obj: unsafe.Pointer(c), n: t})
	c.L.Lock()
}

func (c *Cond) Signal() {
	s := cur.Load()
	if s == nil {
		c.real.Signal()
		return
	}
	s.call(req{kind: kCondSignal, obj: unsafe.Pointer(c), n: 0})
}

func (c *Cond) Broadcast() {
	s := cur.Load()
	if s == nil {
		c.real.Broadcast()
		return
	}
	s.call(req{kind: kCondSignal, obj: unsafe.Pointer(c), n: 1})
}
