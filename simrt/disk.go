package simrt

import (
	"errors"
	"io/fs"
	"os"
	"strings"
	"syscall"
)

// ReadFault is what the simulated disk does to a read of one path.
type ReadFault int

const (
	ReadOK     ReadFault = iota
	ReadENOENT           // file does not exist
	ReadEACCES           // permission denied
	ReadEISDIR           // path is a directory
	ReadEIO              // I/O error after Arg bytes were transferred (the partial data is returned with the error, as os.ReadFile does)
)

func (f ReadFault) String() string {
	return [...]string{"ok", "ENOENT", "EACCES", "EISDIR", "EIO"}[f]
}

type diskFile struct {
	data  []byte
	fault ReadFault
	arg   int
}

// Disk is an in-memory file store mounted under a path prefix. It is set up by
// the harness before the run starts and only read during the run.
type Disk struct {
	Prefix string
	files  map[string]*diskFile
	Reads  int
	Faults int
}

func NewDisk(prefix string) *Disk { return &Disk{Prefix: prefix, files: map[string]*diskFile{}} }

func (d *Disk) Put(path string, data []byte) {
	d.files[path] = &diskFile{data: append([]byte(nil), data...)}
}

func (d *Disk) Fault(path string, f ReadFault, arg int) {
	df := d.files[path]
	if df == nil {
		df = &diskFile{}
		d.files[path] = df
	}
	df.fault, df.arg = f, arg
}

// (like the scheduler's own state the disk is outside the race detector's view: only the goroutine holding the token is in here,
// and a real disk gives concurrent readers no happens-before edge either)
//
//go:norace
func (d *Disk) read(path string) ([]byte, error) {
	d.Reads++
	df := d.files[path]
	perr := func(e error) error { return &fs.PathError{Op: "open", Path: path, Err: e} }
	if df == nil {
		d.Faults++
		return nil, perr(syscall.ENOENT)
	}
	switch df.fault {
	case ReadENOENT:
		d.Faults++
		return nil, perr(syscall.ENOENT)
	case ReadEACCES:
		d.Faults++
		return nil, perr(syscall.EACCES)
	case ReadEISDIR:
		d.Faults++
		return nil, &fs.PathError{Op: "read", Path: path, Err: syscall.EISDIR}
	case ReadEIO:
		d.Faults++
		k := df.arg
		if k > len(df.data) {
			k = len(df.data)
		}
		return append([]byte(nil), df.data[:k]...), &fs.PathError{Op: "read", Path: path, Err: syscall.EIO}
	}
	return append([]byte(nil), df.data...), nil
}

// ReadFile replaces os.ReadFile (and ioutil.ReadFile) in the rewritten library.
func ReadFile(path string) ([]byte, error) {
	if s := cur.Load(); s != nil && s.cfg.Disk != nil && strings.HasPrefix(path, s.cfg.Disk.Prefix) {
		return s.cfg.Disk.read(path)
	}
	return os.ReadFile(path)
}

var _ = errors.New
