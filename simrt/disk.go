package simrt

import (
	"errors"
	"io"
	"io/fs"
	"os"
	"strings"
	"syscall"
	"time"
)

// ReadFault is what the simulated disk does to a read of one path.
type ReadFault int

const (
	ReadOK     ReadFault = iota
	ReadENOENT           // file does not exist
	ReadEACCES           // permission denied
	ReadEISDIR           // path is a directory
	ReadEIO              // I/O error after Arg bytes were transferred (the partial data is returned with the error, as os.ReadFile does)
)

func (f ReadFault) String() string {
	return [...]string{"ok", "ENOENT", "EACCES", "EISDIR", "EIO"}[f]
}

type diskFile struct {
	data  []byte
	fault ReadFault
	arg   int
}

// Disk is an in-memory file store mounted under a path prefix. It is set up by
// the harness before the run starts and only read during the run.
type Disk struct {
	Prefix string
	files  map[string]*diskFile
	Reads  int
	Faults int
	short  bool
}

func NewDisk(prefix string) *Disk { return &Disk{Prefix: prefix, files: map[string]*diskFile{}} }

func (d *Disk) Put(path string, data []byte) {
	d.files[path] = &diskFile{data: append([]byte(nil), data...)}
}

func (d *Disk) Fault(path string, f ReadFault, arg int) {
	df := d.files[path]
	if df == nil {
		df = &diskFile{}
		d.files[path] = df
	}
	df.fault, df.arg = f, arg
}

// (like the scheduler's own state the disk is outside the race detector's view: only the goroutine holding the token is in here,
// and a real disk gives concurrent readers no happens-before edge either)
//
//go:norace
func (d *Disk) read(path string) ([]byte, error) {
	d.Reads++
	df := d.files[path]
	perr := func(e error) error { return &fs.PathError{Op: "open", Path: path, Err: e} }
	if df == nil {
		d.Faults++
		return nil, perr(syscall.ENOENT)
	}
	switch df.fault {
	case ReadENOENT:
		d.Faults++
		return nil, perr(syscall.ENOENT)
	case ReadEACCES:
		d.Faults++
		return nil, perr(syscall.EACCES)
	case ReadEISDIR:
		d.Faults++
		return nil, &fs.PathError{Op: "read", Path: path, Err: syscall.EISDIR}
	case ReadEIO:
		d.Faults++
		k := df.arg
		if k > len(df.data) {
			k = len(df.data)
		}
		return append([]byte(nil), df.data[:k]...), &fs.PathError{Op: "read", Path: path, Err: syscall.EIO}
	}
	return append([]byte(nil), df.data...), nil
}

// ReadFile replaces os.ReadFile (and ioutil.ReadFile) in the rewritten library.
func ReadFile(path string) ([]byte, error) {
	if s := cur.Load(); s != nil && s.cfg.Disk != nil && strings.HasPrefix(path, s.cfg.Disk.Prefix) {
		return s.cfg.Disk.read(path)
	}
	return os.ReadFile(path)
}

var _ = errors.New

// ---- os.Open / os.Stat / *os.File (rule R14) ------------------------------------------------------------------
//
// A tree that reads its file through os.Open and a Read loop meets the simulated disk as well: the same per-path
// faults as ReadFile (ENOENT, EACCES, EISDIR on open; EIO after Arg bytes), and — what a real disk almost never
// shows in a test — short reads: every Read delivers a drawn number of bytes, at least one, and the end of the
// file either together with the last bytes or by a separate (0, io.EOF) call.

// File replaces *os.File for files opened through Open. Outside a run (or outside the simulated mount) it wraps the real file.
type File struct {
	real *os.File
	d    *Disk
	path string
	data []byte
	pos  int
	eio  int // -1: none; otherwise I/O error once this many bytes were delivered
	shut bool
}

// ShortReads makes every Read of a simulated file deliver a drawn prefix of what was asked for.
func (d *Disk) SetShortReads(on bool) { d.short = on }

// Open replaces os.Open.
func Open(path string) (*File, error) {
	s := cur.Load()
	if s == nil || s.cfg.Disk == nil || !strings.HasPrefix(path, s.cfg.Disk.Prefix) {
		f, err := os.Open(path)
		if err != nil {
			return nil, err
		}
		return &File{real: f}, nil
	}
	d := s.cfg.Disk
	df, fault, arg := d.lookup(path)
	perr := func(op string, e error) error { return &fs.PathError{Op: op, Path: path, Err: e} }
	if df == nil {
		return nil, perr("open", syscall.ENOENT)
	}
	switch fault {
	case ReadENOENT:
		return nil, perr("open", syscall.ENOENT)
	case ReadEACCES:
		return nil, perr("open", syscall.EACCES)
	}
	f := &File{d: d, path: path, data: append([]byte(nil), df...), eio: -1}
	if fault == ReadEISDIR {
		f.eio = -2 // a directory opens fine and fails on the first read
	}
	if fault == ReadEIO {
		f.eio = arg
		if f.eio > len(f.data) {
			f.eio = len(f.data)
		}
	}
	return f, nil
}

//go:norace
func (d *Disk) lookup(path string) ([]byte, ReadFault, int) {
	d.Reads++
	df := d.files[path]
	if df == nil {
		d.Faults++
		return nil, ReadENOENT, 0
	}
	if df.fault != ReadOK {
		d.Faults++
	}
	data := df.data
	if data == nil {
		data = []byte{}
	}
	return data, df.fault, df.arg
}

//go:norace
func (d *Disk) shortReads() bool { return d.short }

func (f *File) Read(p []byte) (int, error) {
	if f.real != nil {
		return f.real.Read(p)
	}
	if f.shut {
		return 0, &fs.PathError{Op: "read", Path: f.path, Err: fs.ErrClosed}
	}
	if f.eio == -2 {
		return 0, &fs.PathError{Op: "read", Path: f.path, Err: syscall.EISDIR}
	}
	if len(p) == 0 {
		return 0, nil
	}
	limit := len(f.data)
	if f.eio >= 0 {
		limit = f.eio
	}
	if f.pos >= limit {
		if f.eio >= 0 {
			return 0, &fs.PathError{Op: "read", Path: f.path, Err: syscall.EIO}
		}
		return 0, io.EOF
	}
	n := limit - f.pos
	if n > len(p) {
		n = len(p)
	}
	s := cur.Load()
	if s != nil && f.d.shortReads() && n > 1 {
		switch s.Draw("short-read", 6) {
		case 0:
			n = 1
		case 1:
			n = 1 + s.Draw("short-read-n", n)
		case 2:
			if n > 7 {
				n = 7
			}
		case 3:
			n = (n + 1) / 2
		}
	}
	copy(p, f.data[f.pos:f.pos+n])
	f.pos += n
	return n, nil
}

func (f *File) Close() error {
	if f.real != nil {
		return f.real.Close()
	}
	if f.shut {
		return &fs.PathError{Op: "close", Path: f.path, Err: fs.ErrClosed}
	}
	f.shut = true
	return nil
}

func (f *File) Name() string {
	if f.real != nil {
		return f.real.Name()
	}
	return f.path
}

func (f *File) Fd() uintptr {
	if f.real != nil {
		return f.real.Fd()
	}
	return ^uintptr(0)
}

func (f *File) Seek(offset int64, whence int) (int64, error) {
	if f.real != nil {
		return f.real.Seek(offset, whence)
	}
	base := int64(0)
	switch whence {
	case io.SeekCurrent:
		base = int64(f.pos)
	case io.SeekEnd:
		base = int64(len(f.data))
	}
	if base+offset < 0 {
		return 0, &fs.PathError{Op: "seek", Path: f.path, Err: syscall.EINVAL}
	}
	f.pos = int(base + offset)
	if f.pos > len(f.data) {
		f.pos = len(f.data)
	}
	return int64(f.pos), nil
}

func (f *File) ReadAt(p []byte, off int64) (int, error) {
	if f.real != nil {
		return f.real.ReadAt(p, off)
	}
	if f.eio == -2 {
		return 0, &fs.PathError{Op: "read", Path: f.path, Err: syscall.EISDIR}
	}
	if off >= int64(len(f.data)) {
		return 0, io.EOF
	}
	n := copy(p, f.data[off:])
	if f.eio >= 0 && int(off)+n > f.eio {
		n = f.eio - int(off)
		if n < 0 {
			n = 0
		}
		return n, &fs.PathError{Op: "read", Path: f.path, Err: syscall.EIO}
	}
	if n < len(p) {
		return n, io.EOF
	}
	return n, nil
}

// Stat of an open file.
func (f *File) Stat() (os.FileInfo, error) {
	if f.real != nil {
		return f.real.Stat()
	}
	return simInfo{name: f.path, size: int64(len(f.data)), dir: f.eio == -2}, nil
}

// Stat replaces os.Stat.
func Stat(path string) (os.FileInfo, error) {
	s := cur.Load()
	if s == nil || s.cfg.Disk == nil || !strings.HasPrefix(path, s.cfg.Disk.Prefix) {
		return os.Stat(path)
	}
	df, fault, _ := s.cfg.Disk.lookup(path)
	if df == nil || fault == ReadENOENT {
		return nil, &fs.PathError{Op: "stat", Path: path, Err: syscall.ENOENT}
	}
	return simInfo{name: path, size: int64(len(df)), dir: fault == ReadEISDIR}, nil
}

type simInfo struct {
	name string
	size int64
	dir  bool
}

func (i simInfo) Name() string {
	if k := strings.LastIndexByte(i.name, '/'); k >= 0 {
		return i.name[k+1:]
	}
	return i.name
}
func (i simInfo) Size() int64 { return i.size }
func (i simInfo) Mode() fs.FileMode {
	if i.dir {
		return fs.ModeDir | 0o755
	}
	return 0o644
}
func (i simInfo) ModTime() time.Time { return epoch }
func (i simInfo) IsDir() bool        { return i.dir }
func (i simInfo) Sys() any           { return nil }
