// Package simrt is the simulator runtime behind the rewritten copy of the
// library under test: a token-passing scheduler that decides which goroutine
// runs, simulated sync.WaitGroup / sync.Mutex / sync.RWMutex, seeded map
// iteration order and a simulated disk. With no run active every primitive
// delegates to the real thing (pass-through), so the rewritten library behaves
// like the shipped one.
//
// Exactly one simulated goroutine runs at a time. Simulated goroutines talk to
// the scheduler goroutine through unbuffered channels; those channel operations
// are wrapped in runtime.RaceDisable/RaceEnable, which hides the *synchronisation*
// they imply from ThreadSanitizer, so that under -race the detector judges only
// the happens-before edges the library's own primitives publish (see sync.go)
// on a fully serialised, seed-determined execution.
//
// All scheduler state is private to the scheduler goroutine. A simulated
// goroutine receives scalars by value only.
package simrt

import (
	"fmt"
	"runtime"
	"sync"
	"sync/atomic"
	"unsafe"
)

// Policy selects how the next goroutine is chosen among the eligible ones.
type Policy int

const (
	PolRandom     Policy = iota // uniform draw at every scheduling point
	PolLowest                   // lowest goroutine id first (caller first, FIFO start order)
	PolHighest                  // newest goroutine first (LIFO)
	PolRoundRobin               // next id after the one that ran last
	PolPCT                      // random priorities with PCTDepth change points
	PolStarve                   // random, but one drawn victim runs only when nothing else can
	PolStall                    // random, and a goroutine that just left a critical section (Unlock, channel operation) is sometimes held back until nobody else can run
	NumPolicies
)

var policyNames = [...]string{"random", "lowest", "highest", "roundrobin", "pct", "starve", "stall"}

func (p Policy) String() string {
	if int(p) < len(policyNames) {
		return policyNames[p]
	}
	return fmt.Sprintf("policy%d", int(p))
}

// Config is the per-run configuration (drawn by the engine, stored in replay files).
type Config struct {
	Policy         Policy
	SwitchPermille int // chance of a context switch at a soft gate (Add, Done, Unlock, Go, Yield)
	PCTDepth       int
	PCTHorizon     int
	StallAfterUnlockPermille int // PolStall: chance that a goroutine leaving a critical section is held back
	MaxSteps       int
	KeyOrder       KeyPolicy
	KeepTrace      bool
	Disk           *Disk
	StallPermille  int // chance, at a scheduling point with timers pending, that the clock jumps to the next deadline although goroutines are runnable (a stalled machine)
}

// OutcomeKind classifies how a run ended.
type OutcomeKind int

const (
	OutOK OutcomeKind = iota
	OutDeadlock
	OutStepCap
	OutPanic // a simulated goroutine panicked and nobody recovered
)

func (k OutcomeKind) String() string {
	return [...]string{"ok", "deadlock", "stepcap", "panic"}[k]
}

// GateEv is one scheduler step: goroutine g passed gate kind k.
type GateEv struct {
	G int
	K uint8
}

// LogEv is one event of the recorded history. Seq is the global event number.
type LogEv struct {
	Seq  int
	G    int
	Tag  uint8
	A, B uint64
}

// Outcome is everything the scheduler knows about a finished run.
type Outcome struct {
	Kind        OutcomeKind
	Steps       int
	Goroutines  int
	Switches    int
	Fingerprint uint64
	Trace       []GateEv
	Log         []LogEv
	PanicG      int
	PanicMsg    string
	PanicStack  string
	Blocked     []string
	Probes      map[string]int
	Unmanaged   int
	VirtualNs   int64
}

type reqKind uint8

const (
	kDraw reqKind = iota
	kLog
	kCount
	kProbe
	kSpawn
	kYield
	kAdd
	kWait
	kLock
	kUnlock
	kRLock
	kRUnlock
	kTryLock
	kExit
	kPanicExit
	kStepNote
	kSend
	kSendWait
	kRecv
	kClose
	kChanLen
	kChanNil
	kSleep
	kNow
	kSelect
	kCondAdd
	kCondWait
	kCondSignal
)

var gateNames = [...]string{"draw", "log", "count", "probe", "go", "yield", "add", "wait", "lock", "unlock", "rlock", "runlock", "trylock", "exit", "panic", "note", "send", "send-done", "recv", "close", "chan-len", "nil-chan", "sleep", "now", "select", "cond-enqueue", "cond-wait", "cond-signal"}

// GateName returns the readable name of a gate kind in a trace.
func GateName(k uint8) string {
	if int(k) < len(gateNames) {
		return gateNames[k]
	}
	return "?"
}

type reply struct {
	v     int
	panic string
}

type req struct {
	kind  reqKind
	obj   unsafe.Pointer
	n     int
	label string
	ev    LogEv
	wake  chan reply // kSpawn: the child's start channel
	reply chan reply
	msg   string
	stack string
	cases []SelCase
	dur   int64
	deflt bool
}

type gstate uint8

const (
	gReady gstate = iota
	gWaitWG
	gWaitLock
	gWaitRLock
	gRunning
	gWaitSend
	gWaitTaken
	gWaitRecv
	gWaitForever
	gSleeping
	gWaitSelect
	gWaitCond
)

type gor struct {
	id    int
	wake  chan reply
	state gstate
	obj   unsafe.Pointer
	prio  int
	begun bool
	seq   int // unbuffered send: index of this goroutine's deposit
	stalled bool    // PolStall: held back until nobody else can run
	daemon bool     // background helper (ticker): does not keep the run alive
	ranAt int       // step at which it was last given the processor
	deflt bool      // woken from a select whose default branch was taken
	until int64     // gSleeping: virtual deadline (ns)
	cases []SelCase // gWaitSelect
}

// SelCase is one communication clause of a select statement.
type SelCase struct {
	Ch   unsafe.Pointer
	Cap  int
	Send bool
}

type chanState struct {
	cap    int
	n      int // values deposited and not yet taken
	sent   int
	taken  int
	closed bool
}

type wgState struct {
	n       int
	waiters int
	everAdd bool
}

type muState struct {
	locked  bool
	readers int
}

// Sim is one simulated execution.
type Sim struct {
	cfg    Config
	ch     *Chooser
	reqCh  chan req
	doneCh chan Outcome
	join   sync.WaitGroup
	fin    uint32 // address only: every gate releases on it, the caller of Run acquires it after the run

	// scheduler-private from here on
	gs       []*gor
	running  *gor
	nextID   int
	steps    int
	switches int
	fp       uint64
	trace    []GateEv
	log      []LogEv
	probes   map[string]int
	victim   int
	pctAt    []int
	lastRan  int
	wgs      map[unsafe.Pointer]*wgState
	mus      map[unsafe.Pointer]*muState
	chans    map[unsafe.Pointer]*chanState
	conds    map[unsafe.Pointer]*condState
	maxG     int
	now      int64 // virtual time, ns
	spins    int   // consecutive forced yields with nothing else happening
	recvCache map[unsafe.Pointer]int
}

// condState is the notify list of one sync.Cond: tickets are handed out in Wait (before the lock is released),
// Signal wakes the oldest ticket not yet woken, Broadcast all.
type condState struct {
	next  int // next ticket
	woken int // tickets below this number have been notified
}

var cur atomic.Pointer[Sim]

// Active reports whether a simulated run is in progress.
func Active() bool { return cur.Load() != nil }

// Current returns the running simulation or nil.
func Current() *Sim { return cur.Load() }

// Run executes top as goroutine 0 of a fresh simulation and returns when every
// simulated goroutine has exited, or the run deadlocked, hit the step cap, or a
// goroutine panicked. One run at a time per process.
func Run(ch *Chooser, cfg Config, top func(*Sim)) Outcome {
	if cfg.MaxSteps <= 0 {
		cfg.MaxSteps = 10000
	}
	if cfg.PCTHorizon <= 0 {
		cfg.PCTHorizon = 60
	}
	s := &Sim{
		cfg:    cfg,
		ch:     ch,
		reqCh:  make(chan req),
		doneCh: make(chan Outcome),
		probes: map[string]int{},
		wgs:    map[unsafe.Pointer]*wgState{},
		mus:    map[unsafe.Pointer]*muState{},
		chans:  map[unsafe.Pointer]*chanState{},
		conds:  map[unsafe.Pointer]*condState{},
		fp:     1469598103934665603,
	}
	g0 := &gor{id: 0, state: gRunning, begun: true}
	s.gs = []*gor{g0}
	s.running = g0
	s.nextID = 1
	s.maxG = 1
	s.victim = -1
	if cfg.Policy == PolStarve {
		s.victim = ch.Draw("victim", 9) // 0 starves the caller itself
	}
	if cfg.Policy == PolPCT {
		g0.prio = 1000
		if ch.Draw("pct-caller-low", 4) == 0 {
			g0.prio = 0
		}
		for i := 0; i < cfg.PCTDepth; i++ {
			s.pctAt = append(s.pctAt, 1+ch.Draw("pct-at", cfg.PCTHorizon))
		}
	}
	if !cur.CompareAndSwap(nil, s) {
		panic("simrt: a run is already active in this process")
	}
	go s.loop()
	s.join.Add(1)
	go func() {
		defer s.join.Done()
		defer s.recoverExit()
		top(s)
		s.exit()
	}()
	out := <-s.doneCh
	if out.Kind == OutOK {
		s.join.Wait()
	}
	// Goroutines left parked by a deadlock, a step cap or a panic never reach the join; what they wrote before
	// their last gate is made visible to the caller here (nobody else acquires this address, so no edge between
	// simulated goroutines is created).
	raceAcquire(unsafe.Pointer(&s.fin))
	cur.Store(nil)
	return out
}

func (s *Sim) recoverExit() {
	if r := recover(); r != nil {
		buf := make([]byte, 16<<10)
		buf = buf[:runtime.Stack(buf, false)]
		raceReleaseMerge(unsafe.Pointer(&s.fin))
		raceDisable()
		s.reqCh <- req{kind: kPanicExit, msg: fmt.Sprint(r), stack: string(buf)}
		raceEnable()
	}
}

func (s *Sim) exit() {
	raceReleaseMerge(unsafe.Pointer(&s.fin))
	raceDisable()
	s.reqCh <- req{kind: kExit}
	raceEnable()
}

// call hands a request to the scheduler and parks until it is this goroutine's turn again.
func (s *Sim) call(r req) reply {
	r.reply = make(chan reply)
	raceReleaseMerge(unsafe.Pointer(&s.fin))
	raceDisable()
	s.reqCh <- r
	rep := <-r.reply
	raceEnable()
	if rep.panic != "" {
		panic(rep.panic)
	}
	return rep
}

// Go starts f as a new simulated goroutine (pass-through: a plain goroutine).
func Go(f func()) {
	s := cur.Load()
	if s == nil {
		go f()
		return
	}
	start := make(chan reply)
	s.join.Add(1)
	go func() {
		defer s.join.Done()
		raceDisable()
		<-start
		raceEnable()
		defer s.recoverExit()
		f()
		s.exit()
	}()
	s.call(req{kind: kSpawn, wake: start})
}

// goDaemon starts a background helper that does not keep the run alive (it is left parked when everything else has exited).
func goDaemon(f func()) {
	s := cur.Load()
	start := make(chan reply)
	go func() {
		raceDisable()
		<-start
		raceEnable()
		defer s.recoverExit()
		f()
		s.exit()
	}()
	s.call(req{kind: kSpawn, wake: start, n: 1})
}

// Client starts an additional client goroutine of the harness.
func (s *Sim) Client(f func()) { Go(f) }

// Yield is a scheduling point placed by the harness (inside callbacks, between client calls).
func Yield() {
	if s := cur.Load(); s != nil {
		s.call(req{kind: kYield})
	}
}

// Draw takes one decision from the run's chooser on behalf of a simulated goroutine.
func (s *Sim) Draw(label string, n int) int {
	if n <= 1 {
		return 0
	}
	return s.call(req{kind: kDraw, label: label, n: n}).v
}

// Begin / End delimit the draws of one generated step (used by the shrinker).
func (s *Sim) Begin(label string) { s.call(req{kind: kStepNote, label: label, n: 1}) }
func (s *Sim) End()               { s.call(req{kind: kStepNote, n: 0}) }

// Log appends an event to the recorded history; the scheduler stamps goroutine and sequence number.
func (s *Sim) Log(tag uint8, a, b uint64) {
	s.call(req{kind: kLog, ev: LogEv{Tag: tag, A: a, B: b}})
}

// Count returns how many history events so far carry tag and A == a.
func (s *Sim) Count(tag uint8, a uint64) int {
	return s.call(req{kind: kCount, ev: LogEv{Tag: tag, A: a}}).v
}

// Probe bumps a reach counter.
func (s *Sim) Probe(name string) { s.call(req{kind: kProbe, label: name}) }

func (s *Sim) note(g *gor, k reqKind) {
	s.fp = (s.fp ^ uint64(g.id)<<8 ^ uint64(k)) * 1099511628211
	if s.cfg.KeepTrace {
		s.trace = append(s.trace, GateEv{G: g.id, K: uint8(k)})
	}
}

func (s *Sim) wg(p unsafe.Pointer) *wgState {
	w := s.wgs[p]
	if w == nil {
		w = &wgState{}
		s.wgs[p] = w
	}
	return w
}

func (s *Sim) mu(p unsafe.Pointer) *muState {
	m := s.mus[p]
	if m == nil {
		m = &muState{}
		s.mus[p] = m
	}
	return m
}

func (s *Sim) chanOf(p unsafe.Pointer, capacity int) *chanState {
	c := s.chans[p]
	if c == nil {
		c = &chanState{cap: capacity}
		s.chans[p] = c
	}
	return c
}

func (s *Sim) condOf(p unsafe.Pointer) *condState {
	c := s.conds[p]
	if c == nil {
		c = &condState{}
		s.conds[p] = c
	}
	return c
}

// parkedReceivers counts the goroutines parked in a receive (or in a select with a receive case) on channel p.
// The counts are cached per scheduler iteration: with thousands of goroutines a scan per query is quadratic.
func (s *Sim) parkedReceivers(p unsafe.Pointer) int {
	if s.recvCache == nil {
		s.recvCache = map[unsafe.Pointer]int{}
		for _, x := range s.gs {
			if x.state == gWaitRecv {
				s.recvCache[x.obj]++
			}
			if x.state == gWaitSelect {
				seen := map[unsafe.Pointer]bool{}
				for _, c := range x.cases {
					if !c.Send && !seen[c.Ch] {
						seen[c.Ch] = true
						s.recvCache[c.Ch]++
					}
				}
			}
		}
	}
	return s.recvCache[p]
}

func (s *Sim) parkedReceiversSlow(p unsafe.Pointer) int {
	n := 0
	for _, x := range s.gs {
		if x.state == gWaitRecv && x.obj == p {
			n++
		}
		if x.state == gWaitSelect {
			for _, c := range x.cases {
				if !c.Send && c.Ch == p {
					n++
					break
				}
			}
		}
	}
	return n
}

// caseReady reports whether a select case could proceed now.
func (s *Sim) caseReady(c SelCase) bool {
	if c.Ch == nil {
		return false
	}
	cs := s.chanOf(c.Ch, c.Cap)
	if c.Send {
		if cs.closed {
			return true
		}
		if cs.cap > 0 {
			return cs.n < cs.cap
		}
		return s.parkedReceivers(c.Ch) > cs.n
	}
	return cs.n > 0 || cs.closed
}

func (s *Sim) eligible(g *gor) bool {
	switch g.state {
	case gWaitSend:
		c := s.chanOf(g.obj, 0)
		if c.closed {
			return true // wakes up to panic
		}
		if c.cap > 0 {
			return c.n < c.cap
		}
		return s.parkedReceivers(g.obj) > c.n
	case gWaitTaken:
		return s.chanOf(g.obj, 0).taken > g.seq
	case gWaitRecv:
		c := s.chanOf(g.obj, 0)
		return c.n > 0 || c.closed
	case gWaitForever:
		return false
	case gWaitCond:
		return s.condOf(g.obj).woken > g.seq
	case gSleeping:
		return s.now >= g.until
	case gWaitSelect:
		for _, c := range g.cases {
			if s.caseReady(c) {
				return true
			}
		}
		return false
	case gReady:
		return true
	case gWaitWG:
		return s.wg(g.obj).n == 0
	case gWaitLock:
		m := s.mu(g.obj)
		return !m.locked && m.readers == 0
	case gWaitRLock:
		return !s.mu(g.obj).locked
	}
	return false
}

func (s *Sim) remove(g *gor) {
	for i, x := range s.gs {
		if x == g {
			s.gs = append(s.gs[:i], s.gs[i+1:]...)
			return
		}
	}
}

func (s *Sim) finish(kind OutcomeKind, r *req, pg int) {
	out := Outcome{
		Kind: kind, Steps: s.steps, Goroutines: s.maxG, Switches: s.switches,
		Fingerprint: s.fp, Trace: s.trace, Log: s.log, Probes: s.probes, VirtualNs: s.now,
	}
	if r != nil {
		out.PanicMsg, out.PanicStack, out.PanicG = r.msg, r.stack, pg
	}
	if kind == OutDeadlock || kind == OutStepCap {
		for _, g := range s.gs {
			what := [...]string{"ready", "WaitGroup.Wait", "Mutex.Lock", "RWMutex.RLock", "running", "chan send", "chan send (unbuffered, waiting for the receiver)", "chan receive", "nil channel", "time.Sleep / timer", "select", "Cond.Wait"}[g.state]
			out.Blocked = append(out.Blocked, fmt.Sprintf("g%d:%s", g.id, what))
		}
	}
	raceEnable() // the final hand-over is a visible edge: the caller of Run may read everything
	s.doneCh <- out
}

func (s *Sim) loop() {
	raceDisable() // for the lifetime of the scheduler goroutine
	for {
		r := <-s.reqCh
		s.recvCache = nil
		g := s.running
		soft := true
		forceSwitch := false
		switch r.kind {
		case kDraw:
			r.reply <- reply{v: s.ch.Draw(r.label, r.n)}
			continue
		case kStepNote:
			if r.n == 1 {
				s.ch.Begin(r.label)
			} else {
				s.ch.End()
			}
			r.reply <- reply{}
			continue
		case kLog:
			ev := r.ev
			ev.G, ev.Seq = g.id, len(s.log)
			s.log = append(s.log, ev)
			r.reply <- reply{}
			continue
		case kCount:
			n := 0
			for _, e := range s.log {
				if e.Tag == r.ev.Tag && e.A == r.ev.A {
					n++
				}
			}
			r.reply <- reply{v: n}
			continue
		case kProbe:
			s.probes[r.label]++
			r.reply <- reply{}
			continue
		}
		s.steps++
		s.note(g, r.kind)
		switch r.kind {
		case kSpawn:
			c := &gor{id: s.nextID, wake: r.wake, state: gReady, daemon: r.n == 1}
			s.nextID++
			if s.cfg.Policy == PolPCT {
				c.prio = 1 + s.ch.Draw("pct-prio", 999)
			}
			s.gs = append(s.gs, c)
			if len(s.gs) > s.maxG {
				s.maxG = len(s.gs)
			}
			g.state, g.wake = gReady, r.reply
		case kYield:
			g.state, g.wake = gReady, r.reply
			if r.n == 1 {
				forceSwitch = true
			}
		case kAdd:
			w := s.wg(r.obj)
			if r.n > 0 {
				w.everAdd = true
			}
			w.n += r.n
			if w.n < 0 {
				w.n = 0
				r.reply <- reply{panic: "sync: negative WaitGroup counter"}
				continue
			}
			if w.n == 0 && r.n < 0 {
				s.probes["wg-reached-zero"]++
			}
			g.state, g.wake = gReady, r.reply
		case kWait:
			w := s.wg(r.obj)
			if w.n == 0 {
				if w.everAdd {
					s.probes["wait-found-all-done"]++
				}
			} else {
				s.probes["wait-parked"]++
				for _, x := range s.gs {
					if !x.begun {
						s.probes["wait-parked-before-a-worker-started"]++
						break
					}
				}
			}
			g.state, g.obj, g.wake = gWaitWG, r.obj, r.reply
			soft = false
		case kLock:
			m := s.mu(r.obj)
			if m.locked || m.readers > 0 {
				s.probes["lock-contended"]++
				soft = false
			}
			g.state, g.obj, g.wake = gWaitLock, r.obj, r.reply
		case kRLock:
			m := s.mu(r.obj)
			if m.locked {
				s.probes["lock-contended"]++
				soft = false
			}
			g.state, g.obj, g.wake = gWaitRLock, r.obj, r.reply
		case kTryLock:
			m := s.mu(r.obj)
			if m.locked || m.readers > 0 {
				r.reply <- reply{v: 0}
			} else {
				m.locked = true
				r.reply <- reply{v: 1}
			}
			continue
		case kUnlock:
			m := s.mu(r.obj)
			if !m.locked {
				r.reply <- reply{panic: "sync: unlock of unlocked mutex"}
				continue
			}
			m.locked = false
			g.state, g.wake = gReady, r.reply
		case kRUnlock:
			m := s.mu(r.obj)
			if m.readers <= 0 {
				r.reply <- reply{panic: "sync: RUnlock of unlocked RWMutex"}
				continue
			}
			m.readers--
			g.state, g.wake = gReady, r.reply
		case kSend:
			c := s.chanOf(r.obj, r.n)
			if c.closed {
				r.reply <- reply{panic: "send on closed channel"}
				continue
			}
			g.state, g.obj, g.wake = gWaitSend, r.obj, r.reply
			if !s.eligible(g) {
				s.probes["chan-send-parked"]++
				soft = false
			}
		case kSendWait:
			g.state, g.obj, g.wake = gWaitTaken, r.obj, r.reply
			soft = false
		case kRecv:
			c := s.chanOf(r.obj, r.n)
			g.state, g.obj, g.wake = gWaitRecv, r.obj, r.reply
			if c.n == 0 && !c.closed {
				s.probes["chan-recv-parked"]++
				soft = false
			}
		case kClose:
			c := s.chanOf(r.obj, 0)
			if c.closed {
				r.reply <- reply{panic: "close of closed channel"}
				continue
			}
			c.closed = true
			g.state, g.wake = gReady, r.reply
		case kChanLen:
			c := s.chanOf(r.obj, 0)
			n := c.n
			if c.cap == 0 {
				n = 0
			}
			r.reply <- reply{v: n}
			continue
		case kChanNil:
			g.state, g.wake = gWaitForever, r.reply
			soft = false
		case kCondAdd:
			c := s.condOf(r.obj)
			r.reply <- reply{v: c.next}
			c.next++
			continue
		case kCondWait:
			g.state, g.obj, g.seq, g.wake = gWaitCond, r.obj, r.n, r.reply
			if s.condOf(r.obj).woken <= r.n {
				soft = false
			}
		case kCondSignal:
			c := s.condOf(r.obj)
			if r.n == 0 { // Signal
				if c.woken < c.next {
					c.woken++
				}
			} else { // Broadcast
				c.woken = c.next
			}
			g.state, g.wake = gReady, r.reply
		case kSleep:
			g.state, g.wake, g.until = gSleeping, r.reply, s.now+r.dur
			if r.dur > 0 {
				soft = false
			}
		case kNow:
			r.reply <- reply{v: int(s.now)}
			continue
		case kSelect:
			r.cases = copyCases(r.cases)
			ready := false
			for _, c := range r.cases {
				if s.caseReady(c) {
					ready = true
				}
			}
			if !ready && r.deflt {
				// the default branch is taken; a loop polling with select/default must not keep the processor for ever
				g.state, g.wake, g.deflt = gReady, r.reply, true
				forceSwitch = true
				break
			}
			g.state, g.wake, g.cases = gWaitSelect, r.reply, r.cases
			if !ready {
				s.probes["select-parked"]++
				soft = false
			}
		case kExit:
			s.remove(g)
			g = nil
			soft = false
		case kPanicExit:
			id := g.id
			s.remove(g)
			s.finish(OutPanic, &r, id)
			return
		}
		s.running = nil
		alive := 0
		for _, x := range s.gs {
			if !x.daemon {
				alive++
			}
		}
		if alive == 0 && g == nil {
			// only background helpers (tickers) are left: the run is over; they stay parked
			s.finish(OutOK, nil, 0)
			return
		}
		if s.steps >= s.cfg.MaxSteps {
			s.finish(OutStepCap, nil, 0)
			return
		}
		if !forceSwitch {
			s.spins = 0
		}
		if s.cfg.Policy == PolStall && g != nil && (r.kind == kUnlock || r.kind == kRUnlock || r.kind == kSendWait || r.kind == kClose || r.kind == kCondSignal) {
			// split critical sections (check, then act on a stale answer) show when the goroutine is held back right here
			if s.ch.Draw("stall-after-unlock", 1000) < s.cfg.StallAfterUnlockPermille {
				g.stalled = true
				s.probes["held-back-after-critical-section"]++
			}
		}
		s.recvCache = nil
		next := s.pick(g, soft)
		if forceSwitch && next == g {
			// a goroutine that yields the processor does not get it back while others can run (polling loops must make progress
			// under every policy)
			other := func() *gor {
				// the one that has not run for the longest time (several pollers must not starve the workers between them)
				var best *gor
				for _, x := range s.gs {
					if x != g && s.eligible(x) && (best == nil || x.ranAt < best.ranAt) {
						best = x
					}
				}
				return best
			}
			o := other()
			s.spins++
			if o == nil || s.spins > len(s.gs) {
				// everybody who can run is only spinning (each has yielded in turn, nothing else happened): time passes
				s.spins = 0
				if d, ok := s.nextDeadline(); ok && d > s.now {
					s.now = d
					s.probes["clock-advanced-by-a-spinning-goroutine"]++
					o = other()
				}
			}
			if o != nil {
				next = o
			}
		}
		if next == nil {
			s.finish(OutDeadlock, nil, 0)
			return
		}
		if next != g {
			s.switches++
		}
		rep := reply{}
		if next.deflt {
			rep.v, next.deflt = -1, false
		}
		switch next.state {
		case gWaitLock:
			s.mu(next.obj).locked = true
		case gWaitRLock:
			s.mu(next.obj).readers++
		case gWaitSend:
			c := s.chanOf(next.obj, 0)
			if c.closed {
				rep.panic = "send on closed channel"
			} else {
				c.n++
				next.seq = c.sent
				c.sent++
				rep.v = next.seq
			}
		case gWaitRecv:
			c := s.chanOf(next.obj, 0)
			if c.n > 0 {
				c.n--
				c.taken++
				rep.v = 1
			}
		case gWaitSelect:
			// choose uniformly among the ready cases, as the language does, and commit the operation
			var ready []int
			for i, c := range next.cases {
				if s.caseReady(c) {
					ready = append(ready, i)
				}
			}
			i := ready[s.ch.Draw("select-case", len(ready))]
			c := next.cases[i]
			cs := s.chanOf(c.Ch, c.Cap)
			rep.v = i * 4
			if c.Send {
				if cs.closed {
					rep.panic = "send on closed channel"
				} else {
					cs.n++
					next.seq = cs.sent
					cs.sent++
				}
			} else if cs.n > 0 {
				cs.n--
				cs.taken++
				rep.v |= 1 // a value is there
			}
			next.cases = nil
			next.obj = c.Ch
		}
		next.state, next.begun, next.ranAt = gRunning, true, s.steps
		s.running = next
		s.lastRan = next.id
		next.wake <- rep
	}
}

// pick chooses the goroutine that runs next. g is the goroutine that just passed
// a gate (nil if it exited); soft means it could simply continue.
// nextDeadline returns the earliest deadline of a sleeping goroutine (ok false if none sleeps).
func (s *Sim) nextDeadline() (int64, bool) {
	var best int64
	ok := false
	for _, x := range s.gs {
		if x.state == gSleeping && (!ok || x.until < best) {
			best, ok = x.until, true
		}
	}
	return best, ok
}

func (s *Sim) pick(g *gor, soft bool) *gor {
	// a stalled machine: timers come due although goroutines could have run
	if s.cfg.StallPermille > 0 {
		if d, ok := s.nextDeadline(); ok && d > s.now && s.ch.Draw("stall", 1000) < s.cfg.StallPermille {
			s.now = d
			s.probes["clock-jump-while-runnable"]++
		}
	}
	var el []*gor
	for {
		el = el[:0]
		for _, x := range s.gs {
			if s.eligible(x) {
				el = append(el, x)
			}
		}
		if len(el) > 0 {
			if s.cfg.Policy == PolStall {
				var free []*gor
				for _, x := range el {
					if !x.stalled {
						free = append(free, x)
					}
				}
				if len(free) == 0 {
					for _, x := range el {
						x.stalled = false
					}
				} else {
					el = free
				}
			}
			break
		}
		// nothing can run: discrete-event time jumps to the next timer
		d, ok := s.nextDeadline()
		if !ok {
			return nil
		}
		if d > s.now {
			s.now = d
		}
		s.probes["clock-advanced-when-idle"]++
	}
	if s.cfg.Policy == PolPCT {
		for _, at := range s.pctAt {
			if at == s.steps && g != nil {
				g.prio = -s.steps // drops below everything seen so far
			}
		}
		best := el[0]
		for _, x := range el[1:] {
			if x.prio > best.prio {
				best = x
			}
		}
		return best
	}
	if g != nil && soft && s.eligible(g) && len(el) > 1 && !g.stalled {
		if s.ch.Draw("switch", 1000) >= s.cfg.SwitchPermille {
			return g
		}
	}
	if len(el) == 1 {
		return el[0]
	}
	switch s.cfg.Policy {
	case PolLowest:
		return el[0]
	case PolHighest:
		return el[len(el)-1]
	case PolRoundRobin:
		for _, x := range el {
			if x.id > s.lastRan {
				return x
			}
		}
		return el[0]
	case PolStarve:
		var rest []*gor
		for _, x := range el {
			if x.id != s.victim {
				rest = append(rest, x)
			}
		}
		if len(rest) == 0 {
			return el[0]
		}
		return rest[s.ch.Draw("pick", len(rest))]
	}
	return el[s.ch.Draw("pick", len(el))]
}

// copyCases moves the case list of a select out of the requesting goroutine's memory. The scheduler's reads of
// memory written by a simulated goroutine are not ordered by any visible edge (the gates are hidden on purpose),
// so this one copy is exempt from race instrumentation; everything else the scheduler receives is passed by value.
//
//go:norace
func copyCases(src []SelCase) []SelCase {
	out := make([]SelCase, len(src))
	for i := range src {
		out[i] = src[i]
	}
	return out
}

// Gosched replaces runtime.Gosched: the caller goes to the back of the queue; if anybody else can run, somebody else does.
func Gosched() {
	if s := cur.Load(); s != nil {
		s.call(req{kind: kYield, n: 1})
	}
}

// AG ("atomic gate") passes a scheduling point after an atomic operation that is part of an expression and hands
// its result through.
func AG[T any](v T) T {
	Yield()
	return v
}
