package simrt

import (
	"cmp"
	"sort"
)

// KeyPolicy selects the order in which a rewritten `range` over a map visits its keys.
type KeyPolicy int

const (
	KeysSorted KeyPolicy = iota
	KeysReverse
	KeysRotate  // sorted, rotated by a drawn offset (one draw per loop)
	KeysShuffle // drawn permutation (n-1 draws per loop)
	NumKeyPolicies
)

func (k KeyPolicy) String() string {
	return [...]string{"sorted", "reverse", "rotate", "shuffle"}[k]
}

// MapIter drives a rewritten `for k, v := range m` loop:
//
//	{ it := simrt.Iter(m); k, v := it.ZeroK(), it.ZeroV(); for it.Next() { k, v = it.K(), it.V(); body } }
//
// Like the built-in statement it evaluates m once, never yields an entry that was
// deleted before it was reached, and reports the value current at the time of the visit.
// Entries inserted during the loop are not visited (the language leaves that open).
type MapIter[K cmp.Ordered, V any] struct {
	m    map[K]V
	keys []K
	i    int
	k    K
	v    V
}

// Iter snapshots the key set of m in the order the active run dictates
// (pass-through: Go's own randomised order).
func Iter[M ~map[K]V, K cmp.Ordered, V any](m M) *MapIter[K, V] {
	it := &MapIter[K, V]{m: m, keys: make([]K, 0, len(m))}
	for k := range m {
		it.keys = append(it.keys, k)
	}
	s := cur.Load()
	if s == nil || len(it.keys) < 2 {
		return it
	}
	sort.Slice(it.keys, func(a, b int) bool { return it.keys[a] < it.keys[b] })
	n := len(it.keys)
	switch s.cfg.KeyOrder {
	case KeysReverse:
		for a, b := 0, n-1; a < b; a, b = a+1, b-1 {
			it.keys[a], it.keys[b] = it.keys[b], it.keys[a]
		}
	case KeysRotate:
		r := s.Draw("keys-rot", n)
		rot := make([]K, 0, n)
		rot = append(rot, it.keys[r:]...)
		rot = append(rot, it.keys[:r]...)
		it.keys = rot
	case KeysShuffle:
		for a := n - 1; a > 0; a-- {
			b := s.Draw("keys-shuf", a+1)
			it.keys[a], it.keys[b] = it.keys[b], it.keys[a]
		}
	}
	return it
}

func (it *MapIter[K, V]) ZeroK() (k K) { return }
func (it *MapIter[K, V]) ZeroV() (v V) { return }

// Next advances to the next key that is still present.
func (it *MapIter[K, V]) Next() bool {
	for it.i < len(it.keys) {
		k := it.keys[it.i]
		it.i++
		if v, ok := it.m[k]; ok {
			it.k, it.v = k, v
			return true
		}
	}
	return false
}

func (it *MapIter[K, V]) K() K { return it.k }
func (it *MapIter[K, V]) V() V { return it.v }

// MapsKeys, MapsValues and MapsAll replace maps.Keys, maps.Values and maps.All of the standard library (go 1.23) in the
// rewritten library (rule R13): push iterators that visit the map in the order the active run dictates. The results are
// plain function values, assignable to iter.Seq / iter.Seq2.
func MapsKeys[M ~map[K]V, K cmp.Ordered, V any](m M) func(yield func(K) bool) {
	return func(yield func(K) bool) {
		for it := Iter(m); it.Next(); {
			if !yield(it.K()) {
				return
			}
		}
	}
}

func MapsValues[M ~map[K]V, K cmp.Ordered, V any](m M) func(yield func(V) bool) {
	return func(yield func(V) bool) {
		for it := Iter(m); it.Next(); {
			if !yield(it.V()) {
				return
			}
		}
	}
}

func MapsAll[M ~map[K]V, K cmp.Ordered, V any](m M) func(yield func(K, V) bool) {
	return func(yield func(K, V) bool) {
		for it := Iter(m); it.Next(); {
			if !yield(it.K(), it.V()) {
				return
			}
		}
	}
}
