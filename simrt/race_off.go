//go:build !race

package simrt

import "unsafe"

// RaceEnabled reports whether the binary was built with -race.
const RaceEnabled = false

func raceDisable()                      {}
func raceEnable()                       {}
func raceAcquire(p unsafe.Pointer)      {}
func raceRelease(p unsafe.Pointer)      {}
func raceReleaseMerge(p unsafe.Pointer) {}
func raceRead(p unsafe.Pointer)         {}
func raceWrite(p unsafe.Pointer)        {}

// RaceErrors is always 0 without -race.
func RaceErrors() int { return 0 }
