package simrt

import (
	"sync"
	"time"
	"unsafe"
)

// Chan replaces `chan T` in the rewritten library (rule R6). In a run the scheduler knows the
// channel's capacity, fill level, parked senders/receivers and whether it is closed, so blocking is a
// matter of bookkeeping; the queue itself lives here and is only touched by the goroutine holding the
// token. The happens-before edges of the Go memory model are published explicitly and per message:
// a send is synchronised before the completion of the corresponding receive, the k-th receive before
// the completion of the (k+C)-th send, a close before a receive that returns because of it.
type Chan[T any] struct {
	real chan T
	cap  int
	q    []msg[T]
	// per-slot tokens for the receive -> later send edge
	slots  []byte
	sent   int
	recvd  int
	closed byte
}

type msg[T any] struct {
	v   T
	tok *byte
}

// MakeChan mirrors make(chan T, n).
func MakeChan[T any](n int) *Chan[T] {
	c := &Chan[T]{real: make(chan T, n), cap: n}
	k := n
	if k == 0 {
		k = 1
	}
	c.slots = make([]byte, k)
	return c
}

//go:norace
func (c *Chan[T]) push(v T, tok *byte) int {
	c.q = append(c.q, msg[T]{v, tok})
	c.sent++
	return c.sent - 1
}

//go:norace
func (c *Chan[T]) pop() (T, *byte, int) {
	m := c.q[0]
	var zero msg[T]
	c.q[0] = zero
	c.q = c.q[1:]
	c.recvd++
	return m.v, m.tok, c.recvd - 1
}

//go:norace
func (c *Chan[T]) slot(k int) unsafe.Pointer { return unsafe.Pointer(&c.slots[k%len(c.slots)]) }

func (c *Chan[T]) Send(v T) {
	s := cur.Load()
	if s == nil {
		c.real <- v
		return
	}
	if c == nil {
		s.call(req{kind: kChanNil})
		return
	}
	s.call(req{kind: kSend, obj: unsafe.Pointer(c), n: c.cap})
	tok := new(byte)
	raceRelease(unsafe.Pointer(tok))
	k := c.push(v, tok)
	if c.cap == 0 {
		// an unbuffered send completes only when the receiver has taken the value
		s.call(req{kind: kSendWait, obj: unsafe.Pointer(c)})
		raceAcquire(c.slot(k))
	} else if k >= c.cap {
		// completion of the k-th send is synchronised after the (k-C)-th receive, which freed its slot
		raceAcquire(c.slot(k))
	}
}

func (c *Chan[T]) Recv() T {
	v, _ := c.Recv2()
	return v
}

func (c *Chan[T]) Recv2() (T, bool) {
	s := cur.Load()
	if s == nil {
		v, ok := <-c.real
		return v, ok
	}
	var zero T
	if c == nil {
		s.call(req{kind: kChanNil})
		return zero, false
	}
	rep := s.call(req{kind: kRecv, obj: unsafe.Pointer(c), n: c.cap})
	if rep.v == 0 {
		raceAcquire(unsafe.Pointer(&c.closed))
		return zero, false
	}
	v, tok, k := c.pop()
	raceAcquire(unsafe.Pointer(tok))
	raceReleaseMerge(c.slot(k + c.cap))
	return v, true
}

func (c *Chan[T]) Close() {
	s := cur.Load()
	if s == nil {
		close(c.real)
		return
	}
	if c == nil {
		panic("close of nil channel")
	}
	raceRelease(unsafe.Pointer(&c.closed))
	s.call(req{kind: kClose, obj: unsafe.Pointer(c)})
}

func (c *Chan[T]) Len() int {
	s := cur.Load()
	if s == nil {
		return len(c.real)
	}
	if c == nil {
		return 0
	}
	return s.call(req{kind: kChanLen, obj: unsafe.Pointer(c)}).v
}

// Zero returns the zero value of the element type (used by the rewritten range loop).
func (c *Chan[T]) Zero() (z T) { return }

func (c *Chan[T]) Cap() int {
	if c == nil {
		return 0
	}
	return c.cap
}

// Once replaces sync.Once: the real type would block a token holder outside the scheduler.
type Once struct {
	m    Mutex
	done bool
	real sync.Once
}

func (o *Once) Do(f func()) {
	if cur.Load() == nil {
		o.real.Do(f)
		return
	}
	o.m.Lock()
	defer o.m.Unlock()
	if !o.done {
		defer func() { o.done = true }()
		f()
	}
}

// Sleep replaces time.Sleep: the goroutine parks until the simulated clock has advanced by d. The clock advances
// when nothing else can run (discrete-event time) or, as an injected stall, while other goroutines are runnable.
func Sleep(d time.Duration) {
	s := cur.Load()
	if s == nil {
		time.Sleep(d)
		return
	}
	if d < 0 {
		d = 0
	}
	s.call(req{kind: kSleep, dur: int64(d)})
}

// ---- select, timers, virtual clock (rules R8, R9) -------------------------------------------------------------

// sel gives the scheduler's view of a channel for a select case.
func (c *Chan[T]) sel() (unsafe.Pointer, int) {
	if c == nil {
		return nil, 0
	}
	return unsafe.Pointer(c), c.cap
}

type selectable interface {
	sel() (unsafe.Pointer, int)
}

// RecvCase / SendCase build the case list of a rewritten select statement.
func RecvCase(c selectable) SelCase { p, n := c.sel(); return SelCase{Ch: p, Cap: n} }
func SendCase(c selectable) SelCase { p, n := c.sel(); return SelCase{Ch: p, Cap: n, Send: true} }

// Select blocks until one of the cases can proceed (or returns -1 at once if none can and hasDefault is set),
// commits that case in the scheduler and returns its index; the case body then moves the value with
// TakeSelected / PutSelected.
// The second result says whether a receive case found a value (false: the channel is closed).
func Select(hasDefault bool, cases ...SelCase) (int, bool) {
	s := cur.Load()
	if s == nil {
		panic("simrt: select outside a simulated run is not supported by the rewritten code")
	}
	rep := s.call(req{kind: kSelect, cases: cases, deflt: hasDefault})
	if rep.v < 0 {
		return -1, false
	}
	return rep.v / 4, rep.v&1 == 1
}

// TakeSelected completes a receive case chosen by Select.
func (c *Chan[T]) TakeSelected(has bool) (T, bool) {
	var zero T
	if !has {
		raceAcquire(unsafe.Pointer(&c.closed))
		return zero, false
	}
	v, tok, k := c.pop()
	raceAcquire(unsafe.Pointer(tok))
	raceReleaseMerge(c.slot(k + c.cap))
	return v, true
}

// TakeSelected1 is the single-value form.
func (c *Chan[T]) TakeSelected1(has bool) T {
	v, _ := c.TakeSelected(has)
	return v
}

// PutSelected completes a send case chosen by Select.
func (c *Chan[T]) PutSelected(v T) {
	s := cur.Load()
	tok := new(byte)
	raceRelease(unsafe.Pointer(tok))
	k := c.push(v, tok)
	if c.cap == 0 {
		s.call(req{kind: kSendWait, obj: unsafe.Pointer(c)})
		raceAcquire(c.slot(k))
	} else if k >= c.cap {
		raceAcquire(c.slot(k))
	}
}

var epoch = time.Date(2026, 1, 1, 0, 0, 0, 0, time.UTC)

// Now replaces time.Now: the simulated clock.
func Now() time.Time {
	s := cur.Load()
	if s == nil {
		return time.Now()
	}
	return epoch.Add(time.Duration(s.call(req{kind: kNow}).v))
}

// Since replaces time.Since.
func Since(t time.Time) time.Duration { return Now().Sub(t) }

// After replaces time.After: a channel that receives the time once the simulated clock has advanced by d.
func After(d time.Duration) *Chan[time.Time] {
	c := MakeChan[time.Time](1)
	if cur.Load() == nil {
		go func() { time.Sleep(d); c.real <- time.Now() }()
		return c
	}
	Go(func() {
		Sleep(d)
		c.Send(Now())
	})
	return c
}

// Timer replaces *time.Timer (AfterFunc / NewTimer). Every (re)arming has a generation number; the sleeper of an
// older generation, or of a stopped timer, does nothing when it wakes up.
type Timer struct {
	C      *Chan[time.Time]
	mu     Mutex
	gen    int
	active bool
	f      func()
	real   *time.Timer
}

func (t *Timer) arm(d time.Duration) {
	t.mu.Lock()
	t.gen++
	gen := t.gen
	t.active = true
	t.mu.Unlock()
	Go(func() {
		Sleep(d)
		t.mu.Lock()
		fire := t.active && t.gen == gen
		if fire {
			t.active = false
		}
		t.mu.Unlock()
		if !fire {
			return
		}
		if t.f != nil {
			t.f()
			return
		}
		// like the runtime: the send never blocks (the channel has room for one tick)
		if i, _ := Select(true, SendCase(t.C)); i == 0 {
			t.C.PutSelected(Now())
		}
	})
}

func (t *Timer) Stop() bool {
	if t.real != nil {
		return t.real.Stop()
	}
	t.mu.Lock()
	defer t.mu.Unlock()
	was := t.active
	t.active = false
	return was
}

func (t *Timer) Reset(d time.Duration) bool {
	if t.real != nil {
		return t.real.Reset(d)
	}
	t.mu.Lock()
	was := t.active
	t.mu.Unlock()
	t.arm(d)
	return was
}

// AfterFunc replaces time.AfterFunc.
func AfterFunc(d time.Duration, f func()) *Timer {
	if cur.Load() == nil {
		return &Timer{real: time.AfterFunc(d, f)}
	}
	t := &Timer{f: f}
	t.arm(d)
	return t
}

// NewTimer replaces time.NewTimer.
func NewTimer(d time.Duration) *Timer {
	t := &Timer{C: MakeChan[time.Time](1)}
	if cur.Load() == nil {
		t.real = time.AfterFunc(d, func() {
			select {
			case t.C.real <- time.Now():
			default:
			}
		})
		return t
	}
	t.arm(d)
	return t
}

// Ticker replaces *time.Ticker: ticks are delivered on the simulated clock by a background helper.
type Ticker struct {
	C       *Chan[time.Time]
	mu      Mutex
	stopped bool
	real    *time.Ticker
}

func NewTicker(d time.Duration) *Ticker {
	t := &Ticker{C: MakeChan[time.Time](1)}
	if cur.Load() == nil {
		t.real = time.NewTicker(d)
		go func() {
			for x := range t.real.C {
				select {
				case t.C.real <- x:
				default:
				}
			}
		}()
		return t
	}
	goDaemon(func() {
		for {
			Sleep(d)
			t.mu.Lock()
			stop := t.stopped
			t.mu.Unlock()
			if stop {
				return
			}
			// like the real ticker: a tick is dropped if the previous one has not been taken
			if i, _ := Select(true, SendCase(t.C)); i == 0 {
				t.C.PutSelected(Now())
			}
		}
	})
	return t
}

func (t *Ticker) Stop() {
	if t.real != nil {
		t.real.Stop()
		return
	}
	t.mu.Lock()
	t.stopped = true
	t.mu.Unlock()
}

// Tick replaces time.Tick.
func Tick(d time.Duration) *Chan[time.Time] { return NewTicker(d).C }
