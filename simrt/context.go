package simrt

import (
	"context"
	"time"
)

// Context replaces context.Context in the rewritten library (rule R10): Done is a simulated channel, deadlines
// read the simulated clock. Only what a library of this size plausibly uses is provided.
type Context interface {
	Deadline() (time.Time, bool)
	Done() *Chan[struct{}]
	Err() error
	Value(key any) any
}

type CancelFunc func()

type ctx struct {
	parent   Context
	done     *Chan[struct{}]
	mu       Mutex
	err      error
	deadline time.Time
	hasDl    bool
	key, val any
}

type background struct{}

func (background) Deadline() (time.Time, bool) { return time.Time{}, false }
func (background) Done() *Chan[struct{}]       { return nil } // a nil channel: never ready
func (background) Err() error                  { return nil }
func (background) Value(any) any               { return nil }

func Background() Context { return background{} }
func TODO() Context       { return background{} }

func (c *ctx) Deadline() (time.Time, bool) {
	if c.hasDl {
		return c.deadline, true
	}
	return c.parent.Deadline()
}
func (c *ctx) Done() *Chan[struct{}] { return c.done }
func (c *ctx) Err() error {
	c.mu.Lock()
	defer c.mu.Unlock()
	return c.err
}
func (c *ctx) Value(key any) any {
	if c.key != nil && c.key == key {
		return c.val
	}
	return c.parent.Value(key)
}

func (c *ctx) cancel(err error) {
	c.mu.Lock()
	first := c.err == nil
	if first {
		c.err = err
	}
	c.mu.Unlock()
	if first {
		c.done.Close()
	}
}

func newCtx(parent Context) *ctx {
	c := &ctx{parent: parent, done: MakeChan[struct{}](0)}
	if pd := parent.Done(); pd != nil {
		// propagate the parent's cancellation
		Go(func() {
			if i, _ := Select(false, RecvCase(pd), RecvCase(c.done)); i == 0 {
				c.cancel(parent.Err())
			}
		})
	}
	return c
}

func WithCancel(parent Context) (Context, CancelFunc) {
	c := newCtx(parent)
	return c, func() { c.cancel(context.Canceled) }
}

func WithDeadline(parent Context, d time.Time) (Context, CancelFunc) {
	c := newCtx(parent)
	c.deadline, c.hasDl = d, true
	wait := d.Sub(Now())
	Go(func() {
		t := After(wait)
		if i, _ := Select(false, RecvCase(t), RecvCase(c.done)); i == 0 {
			c.cancel(context.DeadlineExceeded)
		}
	})
	return c, func() { c.cancel(context.Canceled) }
}

func WithTimeout(parent Context, d time.Duration) (Context, CancelFunc) {
	return WithDeadline(parent, Now().Add(d))
}

func WithValue(parent Context, key, val any) Context {
	c := newCtx(parent)
	c.key, c.val = key, val
	return c
}
