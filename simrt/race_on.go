//go:build race

package simrt

import (
	"runtime"
	"unsafe"
)

// RaceEnabled reports whether the binary was built with -race.
const RaceEnabled = true

func raceDisable()                        { runtime.RaceDisable() }
func raceEnable()                         { runtime.RaceEnable() }
func raceAcquire(p unsafe.Pointer)        { runtime.RaceAcquire(p) }
func raceRelease(p unsafe.Pointer)        { runtime.RaceRelease(p) }
func raceReleaseMerge(p unsafe.Pointer)   { runtime.RaceReleaseMerge(p) }
func raceRead(p unsafe.Pointer)           { runtime.RaceRead(p) }
func raceWrite(p unsafe.Pointer)          { runtime.RaceWrite(p) }

// RaceErrors is the number of data races ThreadSanitizer has reported so far in this process.
func RaceErrors() int { return runtime.RaceErrors() }
