package simrt

// Chooser is the single source of every decision taken in a simulated run:
// scheduling, map orders, generated operations, faults. In PRNG mode it is a
// splitmix64 stream derived from one integer; in replay mode it plays a
// recorded list back ("0 when exhausted, value mod n when out of range"), so
// that any edited list is still a valid run, which is what makes shrinking work.
//
// A Chooser is not safe for concurrent use. During a run it is owned by the
// scheduler goroutine; simulated goroutines draw through Sim.Draw.
type Chooser struct {
	state     uint64
	replaying bool
	replay    []int
	pos       int

	Rec   []DrawRec // every draw taken, in order
	Spans []Span    // closed spans, in order of their start
	open  []int     // stack of indices into Spans
}

// DrawRec is one recorded decision.
type DrawRec struct {
	Label string
	N     int
	V     int
}

// Span groups the draws [From,To) that belong to one generated step.
type Span struct {
	Label    string
	From, To int
	Depth    int
}

// Mix derives the stream seed for run i of a batch started with seed.
func Mix(seed uint64, i uint64) uint64 {
	z := seed*0x9E3779B97F4A7C15 + i*0xBF58476D1CE4E5B9 + 0x94D049BB133111EB
	z = (z ^ (z >> 30)) * 0xBF58476D1CE4E5B9
	z = (z ^ (z >> 27)) * 0x94D049BB133111EB
	return z ^ (z >> 31)
}

// NewChooser returns a PRNG-mode chooser.
func NewChooser(seed uint64) *Chooser { return &Chooser{state: seed} }

// NewReplay returns a replay-mode chooser.
func NewReplay(draws []int) *Chooser {
	return &Chooser{replaying: true, replay: append([]int(nil), draws...)}
}

func (c *Chooser) next() uint64 {
	c.state += 0x9E3779B97F4A7C15
	z := c.state
	z = (z ^ (z >> 30)) * 0xBF58476D1CE4E5B9
	z = (z ^ (z >> 27)) * 0x94D049BB133111EB
	return z ^ (z >> 31)
}

// Draw returns a value in [0,n). n <= 1 yields 0 and is not recorded.
func (c *Chooser) Draw(label string, n int) int {
	if n <= 1 {
		return 0
	}
	var v int
	if c.replaying {
		if c.pos < len(c.replay) {
			v = c.replay[c.pos]
			if v < 0 {
				v = -v
			}
			v %= n
		}
		c.pos++
	} else {
		v = int(c.next() % uint64(n))
	}
	c.Rec = append(c.Rec, DrawRec{label, n, v})
	return v
}

// Begin opens a span; End closes the innermost open one.
func (c *Chooser) Begin(label string) {
	c.Spans = append(c.Spans, Span{Label: label, From: len(c.Rec), To: -1, Depth: len(c.open)})
	c.open = append(c.open, len(c.Spans)-1)
}

func (c *Chooser) End() {
	if len(c.open) == 0 {
		return
	}
	i := c.open[len(c.open)-1]
	c.open = c.open[:len(c.open)-1]
	c.Spans[i].To = len(c.Rec)
}

// Values returns the recorded values only (the replayable part).
func (c *Chooser) Values() []int {
	out := make([]int, len(c.Rec))
	for i, r := range c.Rec {
		out[i] = r.V
	}
	return out
}

// Exhausted reports, in replay mode, whether more draws were requested than the list holds.
func (c *Chooser) Exhausted() bool { return c.replaying && c.pos > len(c.replay) }
