// simrewrite swaps the seams of a scratch copy of the library under test:
//
//	R1  sync.WaitGroup / sync.Mutex / sync.RWMutex  ->  simrt types
//	R2  go f(a...)                                    ->  { f, a evaluated here; simrt.Go(func(){ f(a...) }) }
//	R3  for k, v := range <map with ordered key>      ->  loop over simrt.Iter (seeded order)
//	R4  os.ReadFile / ioutil.ReadFile                 ->  simrt.ReadFile
//	R14 os.Open / os.Stat / os.File                   ->  simrt.Open / Stat / File (simulated disk: short reads, injected errors)
//	R13 maps.Keys / maps.Values / maps.All (go 1.23)  ->  simrt.MapsKeys / MapsValues / MapsAll (seeded order)
//	R6  chan T, make(chan T, n), ch <- v, <-ch, v, ok := <-ch, close(ch), len/cap(ch), range ch  ->  simrt.Chan[T]
//	R7  sync.Once -> simrt.Once, time.Sleep -> simrt.Sleep, runtime.Gosched -> simrt.Yield
//	R8  select { case v := <-a: … case b <- x: … default: … }  ->  switch over simrt.Select(…)
//	R9  time.Now/Since/After/AfterFunc/NewTimer/Sleep  ->  the simulated clock
//	R5  report constructs the simulator does not manage (sync/atomic is left real; sync.Cond and friends,
//	    tickers, math/rand)
//
// Edits are byte-range splices driven by go/types; every line that is not touched
// keeps its text and its line number. Test files are left alone.
//
// usage: simrewrite -dir <scratch copy> [-report out.json]
package main

import (
	"encoding/json"
	"flag"
	"fmt"
	"go/ast"
	"go/importer"
	"go/parser"
	"go/token"
	"go/types"
	"os"
	"path/filepath"
	"sort"
	"strings"
)

const simrtPath = "verif.local/simrt"

type edit struct {
	start, end int // byte offsets in the file
	text       func() string
	container  bool
}

type fileState struct {
	name  string
	src   []byte
	file  *ast.File
	edits []*edit
	base  int
}

type report struct {
	Edits     map[string]int `json:"edits"`
	Unmanaged []string       `json:"unmanaged"`
	Files     []string       `json:"files"`
	EnvVars   []string       `json:"env_vars"` // names the library reads with os.Getenv / os.LookupEnv (configuration seams)
}

var (
	fset = token.NewFileSet()
	info *types.Info
	rep  = report{Edits: map[string]int{}}
	uniq int
)

func main() {
	dir := flag.String("dir", "", "directory of the scratch copy (rewritten in place)")
	out := flag.String("report", "", "write a JSON report here")
	flag.Parse()
	perIterationVars = goModAtLeast(*dir, 1, 22)
	if *dir == "" {
		fmt.Fprintln(os.Stderr, "simrewrite: -dir required")
		os.Exit(2)
	}
	if err := run(*dir); err != nil {
		fmt.Fprintln(os.Stderr, "simrewrite:", err)
		os.Exit(2)
	}
	sort.Strings(rep.Unmanaged)
	b, _ := json.MarshalIndent(rep, "", " ")
	if *out != "" {
		os.WriteFile(*out, b, 0o644)
	} else {
		fmt.Println(string(b))
	}
}

func run(dir string) error {
	names, err := filepath.Glob(filepath.Join(dir, "*.go"))
	if err != nil {
		return err
	}
	sort.Strings(names)
	var files []*fileState
	var asts []*ast.File
	pkgName := ""
	for _, n := range names {
		if strings.HasSuffix(n, "_test.go") {
			continue
		}
		src, err := os.ReadFile(n)
		if err != nil {
			return err
		}
		f, err := parser.ParseFile(fset, n, src, parser.ParseComments)
		if err != nil {
			return err
		}
		if pkgName == "" {
			pkgName = f.Name.Name
		}
		if f.Name.Name != pkgName {
			continue
		}
		fs := &fileState{name: n, src: src, file: f, base: fset.File(f.Pos()).Base()}
		files = append(files, fs)
		asts = append(asts, f)
	}
	if len(files) == 0 {
		return fmt.Errorf("no Go files in %s", dir)
	}
	info = &types.Info{
		Types:     map[ast.Expr]types.TypeAndValue{},
		Uses:      map[*ast.Ident]types.Object{},
		Defs:      map[*ast.Ident]types.Object{},
		Implicits: map[ast.Node]types.Object{},
		Instances: map[*ast.Ident]types.Instance{},
	}
	conf := types.Config{Importer: importer.ForCompiler(fset, "source", nil)}
	if _, err := conf.Check(pkgName, fset, asts, info); err != nil {
		return fmt.Errorf("type check: %v", err)
	}
	for _, fs := range files {
		rewriteFile(fs)
		if len(fs.edits) == 0 {
			continue
		}
		out := fs.render(0, len(fs.src), nil)
		if err := os.WriteFile(fs.name, []byte(out), 0o644); err != nil {
			return err
		}
		rep.Files = append(rep.Files, filepath.Base(fs.name))
	}
	return nil
}

func (fs *fileState) off(p token.Pos) int { return fset.Position(p).Offset }

func (fs *fileState) text(n ast.Node) string {
	return fs.render(fs.off(n.Pos()), fs.off(n.End()), nil)
}

// render returns src[start:end] with every edit inside applied; skip is the
// container edit currently being expanded (so that it is not applied to itself).
func (fs *fileState) render(start, end int, skip *edit) string {
	var b strings.Builder
	pos := start
	for _, e := range fs.edits {
		if e == skip || e.start < pos || e.end > end || e.start < start {
			continue
		}
		if skip != nil && e.start == skip.start && e.end == skip.end {
			continue
		}
		b.Write(fs.src[pos:e.start])
		b.WriteString(e.text())
		pos = e.end
	}
	b.Write(fs.src[pos:end])
	return b.String()
}

func (fs *fileState) add(start, end int, container bool, text func() string) *edit {
	e := &edit{start: start, end: end, text: text, container: container}
	fs.edits = append(fs.edits, e)
	return e
}

func pkgOf(e ast.Expr) (pkgPath, name string, ok bool) {
	sel, isSel := e.(*ast.SelectorExpr)
	if !isSel {
		return
	}
	id, isID := sel.X.(*ast.Ident)
	if !isID {
		return
	}
	pn, isPkg := info.Uses[id].(*types.PkgName)
	if !isPkg {
		return
	}
	return pn.Imported().Path(), sel.Sel.Name, true
}

func unmanaged(pos token.Pos, what string) {
	p := fset.Position(pos)
	rep.Unmanaged = append(rep.Unmanaged, fmt.Sprintf("%s:%d: %s", filepath.Base(p.Filename), p.Line, what))
}

func rewriteFile(fs *fileState) {
	usesLeft := map[string]int{} // package path -> selector uses that were NOT rewritten
	needSimrt := false
	atomicStmt := map[*ast.CallExpr]bool{}
	labeled := map[ast.Stmt]bool{}
	ast.Inspect(fs.file, func(n ast.Node) bool {
		if l, ok := n.(*ast.LabeledStmt); ok {
			labeled[l.Stmt] = true
		}
		return true
	})
	ast.Inspect(fs.file, func(n ast.Node) bool {
		switch x := n.(type) {
		case *ast.SelectorExpr:
			path, name, ok := pkgOf(x)
			if !ok {
				return true
			}
			switch {
			case path == "sync" && (name == "WaitGroup" || name == "Mutex" || name == "RWMutex"):
				s, e := fs.off(x.Pos()), fs.off(x.End())
				fs.add(s, e, false, func() string { return "simrt." + name })
				rep.Edits["R1 sync."+name]++
				needSimrt = true
			case (path == "os" || path == "io/ioutil") && name == "ReadFile":
				s, e := fs.off(x.Pos()), fs.off(x.End())
				fs.add(s, e, false, func() string { return "simrt.ReadFile" })
				rep.Edits["R4 ReadFile"]++
				needSimrt = true
			case path == "os" && (name == "Open" || name == "Stat" || name == "File"):
				// R14: files opened for reading are served by the simulated disk (short reads, injected errors)
				s, e := fs.off(x.Pos()), fs.off(x.End())
				nm := name
				fs.add(s, e, false, func() string { return "simrt." + nm })
				rep.Edits["R14 os."+name]++
				needSimrt = true
			case path == "context" && (name == "Context" || name == "CancelFunc" || name == "Background" || name == "TODO" || name == "WithCancel" ||
				name == "WithTimeout" || name == "WithDeadline" || name == "WithValue"):
				s, e := fs.off(x.Pos()), fs.off(x.End())
				nm := name
				fs.add(s, e, false, func() string { return "simrt." + nm })
				rep.Edits["R10 context."+name]++
				needSimrt = true
			case path == "sync" && (name == "Cond" || name == "NewCond"):
				s, e := fs.off(x.Pos()), fs.off(x.End())
				nm := name
				fs.add(s, e, false, func() string { return "simrt." + nm })
				rep.Edits["R7 sync."+name]++
				needSimrt = true
			case path == "sync" && name == "Once":
				s, e := fs.off(x.Pos()), fs.off(x.End())
				fs.add(s, e, false, func() string { return "simrt.Once" })
				rep.Edits["R7 sync.Once"]++
				needSimrt = true
			case path == "time" && (name == "Sleep" || name == "Now" || name == "Since" || name == "After" || name == "AfterFunc" || name == "NewTimer" || name == "Timer" || name == "NewTicker" || name == "Ticker" || name == "Tick"):
				s, e := fs.off(x.Pos()), fs.off(x.End())
				nm := name
				fs.add(s, e, false, func() string { return "simrt." + nm })
				rep.Edits["R9 time."+name]++
				needSimrt = true
			case path == "maps" && (name == "Keys" || name == "Values" || name == "All"):
				// R13: the standard library's map iterators visit the map in the runtime's random order
				ordered := false
				if inst, ok := info.Instances[x.Sel]; ok && inst.TypeArgs != nil && inst.TypeArgs.Len() >= 2 {
					if b, ok := inst.TypeArgs.At(1).Underlying().(*types.Basic); ok && b.Info()&types.IsOrdered != 0 {
						ordered = true
					}
				}
				if !ordered {
					usesLeft[path]++
					unmanaged(x.Pos(), "maps."+name+" over a map with unordered key type (iteration order not controlled)")
					break
				}
				s, e := fs.off(x.Pos()), fs.off(x.End())
				nm := name
				fs.add(s, e, false, func() string { return "simrt.Maps" + nm })
				rep.Edits["R13 maps."+name]++
				needSimrt = true
			case path == "runtime" && name == "Gosched":
				s, e := fs.off(x.Pos()), fs.off(x.End())
				fs.add(s, e, false, func() string { return "simrt.Gosched" })
				rep.Edits["R7 runtime.Gosched"]++
				needSimrt = true
			default:
				usesLeft[path]++
				switch {
				case path == "sync":
					unmanaged(x.Pos(), "sync."+name)
				case path == "sync/atomic":
					unmanaged(x.Pos(), "sync/atomic."+name)
				case path == "time" && (name == "Sleep" || name == "After" || name == "Now" || name == "NewTimer" || name == "Tick" || name == "AfterFunc" || name == "Since" || name == "NewTicker"):
					unmanaged(x.Pos(), "time."+name)
				case path == "reflect" && (name == "MapKeys" || name == "MapRange"):
					unmanaged(x.Pos(), "reflect."+name+" (iteration order not controlled)")
				case path == "math/rand" || path == "math/rand/v2" || path == "crypto/rand":
					unmanaged(x.Pos(), path+"."+name)
				case path == "os" && (name == "OpenFile" || name == "Lstat" || name == "ReadDir" || name == "Create" || name == "DirFS"):
					unmanaged(x.Pos(), "os."+name+" (served by the real disk only)")
				case path == "runtime" && (name == "Gosched" || name == "NumGoroutine" || name == "GOMAXPROCS"):
					unmanaged(x.Pos(), "runtime."+name)
				}
			}
		case *ast.ChanType:
			ct := x
			var self *edit
			self = fs.add(fs.off(ct.Pos()), fs.off(ct.End()), true, func() string {
				return "*simrt.Chan[" + fs.renderNode(ct.Value, self) + "]"
			})
			rep.Edits["R6 chan type"]++
			needSimrt = true
		case *ast.SelectStmt:
			if labeled[x] {
				unmanaged(x.Pos(), "labeled select statement")
			} else if fs.rewriteSelect(x) {
				needSimrt = true
			}
		case *ast.SendStmt:
			st := x
			var self *edit
			self = fs.add(fs.off(st.Pos()), fs.off(st.End()), true, func() string {
				return postfix(fs.renderNode(st.Chan, self), st.Chan) + ".Send(" + fs.renderNode(st.Value, self) + ")"
			})
			rep.Edits["R6 send"]++
			needSimrt = true
		case *ast.UnaryExpr:
			if x.Op == token.ARROW {
				u := x
				method := ".Recv()"
				if tv, ok := info.Types[u]; ok {
					if _, isTuple := tv.Type.(*types.Tuple); isTuple {
						method = ".Recv2()"
					}
				}
				var self *edit
				self = fs.add(fs.off(u.Pos()), fs.off(u.End()), true, func() string {
					return postfix(fs.renderNode(u.X, self), u.X) + method
				})
				rep.Edits["R6 receive"]++
				needSimrt = true
			}
		case *ast.ExprStmt:
			// an atomic operation used as a statement: a scheduling point right after it
			if call, ok := x.X.(*ast.CallExpr); ok {
				if path, _, isPkg := pkgOf(call.Fun); isPkg && path == "sync/atomic" {
					atomicStmt[call] = true
					e := fs.off(x.End())
					fs.add(e, e, false, func() string { return "; simrt.Yield()" })
					rep.Edits["R12 atomic gate"]++
					needSimrt = true
				}
			}
		case *ast.CallExpr:
			if path, name, isPkg := pkgOf(x.Fun); isPkg {
				if path == "sync/atomic" && !atomicStmt[x] {
					// an atomic operation inside an expression: evaluate it, then pass a scheduling point (lock-free
					// algorithms go wrong between two atomic operations, which the race detector cannot see)
					call := x
					var self *edit
					self = fs.add(fs.off(call.Pos()), fs.off(call.End()), true, func() string {
						return "simrt.AG(" + fs.render(fs.off(call.Pos()), fs.off(call.End()), self) + ")"
					})
					rep.Edits["R12 atomic gate"]++
					needSimrt = true
				}
				if path == "os" && (name == "Getenv" || name == "LookupEnv") && len(x.Args) == 1 {
					if tv, ok := info.Types[x.Args[0]]; ok && tv.Value != nil {
						rep.EnvVars = append(rep.EnvVars, strings.Trim(tv.Value.ExactString(), "\""))
					}
				}
			}
			if id, ok := x.Fun.(*ast.Ident); ok && len(x.Args) >= 1 {
				if _, isBuiltin := info.Uses[id].(*types.Builtin); isBuiltin {
					call := x
					at := info.TypeOf(call.Args[0])
					var ch *types.Chan
					if at != nil {
						ch, _ = at.Underlying().(*types.Chan)
					}
					if ch != nil {
						var self *edit
						switch id.Name {
						case "make":
							if ctype, ok := call.Args[0].(*ast.ChanType); ok {
								self = fs.add(fs.off(call.Pos()), fs.off(call.End()), true, func() string {
									n := "0"
									if len(call.Args) > 1 {
										n = fs.renderNode(call.Args[1], self)
									}
									return "simrt.MakeChan[" + fs.renderNode(ctype.Value, self) + "](" + n + ")"
								})
								rep.Edits["R6 make"]++
								needSimrt = true
							} else {
								unmanaged(call.Pos(), "make of a named channel type")
							}
						case "close", "len", "cap":
							m := map[string]string{"close": ".Close()", "len": ".Len()", "cap": ".Cap()"}[id.Name]
							self = fs.add(fs.off(call.Pos()), fs.off(call.End()), true, func() string {
								return postfix(fs.renderNode(call.Args[0], self), call.Args[0]) + m
							})
							rep.Edits["R6 "+id.Name]++
							needSimrt = true
						}
					}
				}
			}
		case *ast.GoStmt:
			if fs.rewriteGo(x) {
				needSimrt = true
			}
		case *ast.RangeStmt:
			if labeled[x] {
				if t := info.TypeOf(x.X); t != nil {
					if _, isMap := t.Underlying().(*types.Map); isMap {
						unmanaged(x.Pos(), "labeled range over map (iteration order not controlled)")
					}
				}
			} else if fs.rewriteRange(x) {
				needSimrt = true
			}
		}
		return true
	})
	if !needSimrt {
		return
	}
	// Imports: add simrt, blank the ones that lost their last use.
	for _, imp := range fs.file.Imports {
		path := strings.Trim(imp.Path.Value, "\"")
		if (path == "sync" || path == "os" || path == "io/ioutil" || path == "time" || path == "runtime" || path == "context" || path == "maps") && usesLeft[path] == 0 && imp.Name == nil {
			s := fs.off(imp.Path.Pos())
			fs.add(s, s, false, func() string { return "_ " })
		}
	}
	// The simrt import goes on the line of the package clause so that no line number moves.
	e := fs.off(fs.file.Name.End())
	fs.add(e, e, false, func() string { return "; import simrt \"" + simrtPath + "\"" })
	sort.SliceStable(fs.edits, func(i, j int) bool {
		a, b := fs.edits[i], fs.edits[j]
		if a.start != b.start {
			return a.start < b.start
		}
		return a.end > b.end // containers first
	})
}

// rewriteGo turns `go f(a, b)` into a block that evaluates f and its arguments in
// the parent (as the go statement does) and hands the call to simrt.Go.
func (fs *fileState) rewriteGo(g *ast.GoStmt) bool {
	call := g.Call
	if id, ok := call.Fun.(*ast.Ident); ok {
		if _, isBuiltin := info.Uses[id].(*types.Builtin); isBuiltin {
			unmanaged(g.Pos(), "go statement on a builtin")
			return false
		}
	}
	if tv, ok := info.Types[call.Fun]; ok && tv.IsType() {
		unmanaged(g.Pos(), "go statement on a conversion")
		return false
	}
	uniq++
	id := uniq
	var self *edit
	self = fs.add(fs.off(g.Pos()), fs.off(g.End()), true, func() string {
		var b strings.Builder
		fn := fmt.Sprintf("__f%d", id)
		fmt.Fprintf(&b, "{ %s := %s; ", fn, fs.renderNode(call.Fun, self))
		var args []string
		for i, a := range call.Args {
			tv := info.Types[a]
			if tv.Value != nil || tv.IsNil() {
				args = append(args, fs.renderNode(a, self))
				continue
			}
			name := fmt.Sprintf("__a%d_%d", id, i)
			fmt.Fprintf(&b, "%s := %s; ", name, fs.renderNode(a, self))
			args = append(args, name)
		}
		ell := ""
		if call.Ellipsis.IsValid() {
			ell = "..."
		}
		fmt.Fprintf(&b, "simrt.Go(func() { %s(%s%s) }) }", fn, strings.Join(args, ", "), ell)
		return b.String()
	})
	rep.Edits["R2 go"]++
	return true
}

func (fs *fileState) renderNode(n ast.Node, skip *edit) string {
	return fs.render(fs.off(n.Pos()), fs.off(n.End()), skip)
}

// perIterationVars: the module's go directive selects per-iteration loop variables (go >= 1.22); the rewritten loops
// must give closures and goroutines started in the body the same variables the original loops would.
var perIterationVars bool

func goModAtLeast(dir string, major, minor int) bool {
	data, err := os.ReadFile(filepath.Join(dir, "go.mod"))
	if err != nil {
		return false
	}
	for _, line := range strings.Split(string(data), "\n") {
		f := strings.Fields(line)
		if len(f) == 2 && f[0] == "go" {
			var a, b int
			fmt.Sscanf(f[1], "%d.%d", &a, &b)
			return a > major || (a == major && b >= minor)
		}
	}
	return false
}

// rewriteRange turns a range over a map with an ordered key type into a loop over simrt.Iter.
func (fs *fileState) rewriteRange(r *ast.RangeStmt) bool {
	t := info.TypeOf(r.X)
	if t == nil {
		return false
	}
	m, ok := t.Underlying().(*types.Map)
	if !ok {
		if _, isChan := t.Underlying().(*types.Chan); isChan {
			return fs.rewriteRangeChan(r)
		}
		return false
	}
	if b, ok := m.Key().Underlying().(*types.Basic); !ok || b.Info()&(types.IsOrdered) == 0 {
		unmanaged(r.Pos(), "range over map with unordered key type (iteration order not controlled)")
		return false
	}
	uniq++
	it := fmt.Sprintf("__it%d", uniq)
	blank := func(e ast.Expr) bool {
		if e == nil {
			return true
		}
		id, ok := e.(*ast.Ident)
		return ok && id.Name == "_"
	}
	hasK, hasV := !blank(r.Key), !blank(r.Value)
	// header: from `for` up to and including the opening brace of the body
	hs, he := fs.off(r.For), fs.off(r.Body.Lbrace)+1
	fs.add(hs, he, false, func() string {
		var b strings.Builder
		fmt.Fprintf(&b, "{ %s := simrt.Iter(%s); ", it, fs.renderNode(r.X, nil))
		assign := ""
		op := "="
		if r.Tok == token.DEFINE {
			if perIterationVars {
				// go >= 1.22 in go.mod: every iteration has its own copy of the variables
				op = ":="
			} else {
				if hasK {
					fmt.Fprintf(&b, "%s := %s.ZeroK(); ", fs.renderNode(r.Key, nil), it)
				}
				if hasV {
					fmt.Fprintf(&b, "%s := %s.ZeroV(); ", fs.renderNode(r.Value, nil), it)
				}
			}
		}
		if hasK {
			assign += fmt.Sprintf("%s %s %s.K(); ", fs.renderNode(r.Key, nil), op, it)
		}
		if hasV {
			assign += fmt.Sprintf("%s %s %s.V(); ", fs.renderNode(r.Value, nil), op, it)
		}
		fmt.Fprintf(&b, "for %s.Next() { %s", it, assign)
		return b.String()
	})
	ce := fs.off(r.Body.Rbrace) + 1
	fs.add(ce, ce, false, func() string { return " }" })
	rep.Edits["R3 range-map"]++
	return true
}

// postfix parenthesises a rendered operand unless it is already a primary expression.
func postfix(text string, n ast.Expr) string {
	switch n.(type) {
	case *ast.Ident, *ast.SelectorExpr, *ast.IndexExpr, *ast.CallExpr, *ast.ParenExpr:
		return text
	}
	return "(" + text + ")"
}

// rewriteRangeChan turns `for v := range ch { body }` into a receive loop on the simulated channel:
//
//	{ c := ch; v := c.Zero(); var ok bool; for { v, ok = c.Recv2(); if !ok { break }; body } }
//
// (one loop variable for the whole loop, as in go 1.18).
func (fs *fileState) rewriteRangeChan(r *ast.RangeStmt) bool {
	uniq++
	ch := fmt.Sprintf("__ch%d", uniq)
	ok := fmt.Sprintf("__ok%d", uniq)
	hasV := r.Key != nil
	if id, isID := r.Key.(*ast.Ident); isID && id.Name == "_" {
		hasV = false
	}
	hs, he := fs.off(r.For), fs.off(r.Body.Lbrace)+1
	fs.add(hs, he, false, func() string {
		var b strings.Builder
		fmt.Fprintf(&b, "{ %s := %s; var %s bool; ", ch, fs.renderNode(r.X, nil), ok)
		v := "_"
		if hasV {
			v = fs.renderNode(r.Key, nil)
			if r.Tok == token.DEFINE && perIterationVars {
				tmp := fmt.Sprintf("__v%d", uniq)
				fmt.Fprintf(&b, "for { %s, %s := %s.Recv2(); %s = %s; if !%s { break }; %s := %s; _ = %s; ", tmp, ok+"x", ch, ok, ok+"x", ok, v, tmp, v)
				return b.String()
			}
			if r.Tok == token.DEFINE {
				fmt.Fprintf(&b, "%s := %s.Zero(); _ = %s; ", v, ch, v)
			}
		}
		fmt.Fprintf(&b, "for { %s, %s = %s.Recv2(); if !%s { break }; ", v, ok, ch, ok)
		return b.String()
	})
	ce := fs.off(r.Body.Rbrace) + 1
	fs.add(ce, ce, false, func() string { return " }" })
	rep.Edits["R6 range-chan"]++
	return true
}

// rewriteSelect turns a select statement into a switch over simrt.Select. Channel operands and send values are
// evaluated once, in source order, on entry (as the language does); the chosen case completes its operation
// with TakeSelected / PutSelected.
func (fs *fileState) rewriteSelect(sel *ast.SelectStmt) bool {
	uniq++
	id := uniq
	type clause struct {
		cc    *ast.CommClause
		ch    ast.Expr
		val   ast.Expr // send value
		lhs   []ast.Expr
		tok   token.Token
		isDef bool
	}
	var cls []clause
	for _, st := range sel.Body.List {
		cc := st.(*ast.CommClause)
		c := clause{cc: cc}
		switch comm := cc.Comm.(type) {
		case nil:
			c.isDef = true
		case *ast.SendStmt:
			c.ch, c.val = comm.Chan, comm.Value
		case *ast.ExprStmt:
			u, ok := unparen(comm.X).(*ast.UnaryExpr)
			if !ok {
				unmanaged(sel.Pos(), "select case of unknown form")
				return false
			}
			c.ch = u.X
		case *ast.AssignStmt:
			u, ok := unparen(comm.Rhs[0]).(*ast.UnaryExpr)
			if !ok {
				unmanaged(sel.Pos(), "select case of unknown form")
				return false
			}
			c.ch, c.lhs, c.tok = u.X, comm.Lhs, comm.Tok
		}
		cls = append(cls, c)
	}
	// header: from `select` to the opening brace
	var self *edit
	self = fs.add(fs.off(sel.Select), fs.off(sel.Body.Lbrace)+1, true, func() string {
		var b strings.Builder
		b.WriteString("{ ")
		var cases []string
		hasDef := "false"
		n := 0
		for _, c := range cls {
			if c.isDef {
				hasDef = "true"
				continue
			}
			fmt.Fprintf(&b, "__c%d_%d := %s; ", id, n, fs.renderNode(c.ch, self))
			if c.val != nil {
				fmt.Fprintf(&b, "__x%d_%d := %s; ", id, n, fs.renderNode(c.val, self))
				cases = append(cases, fmt.Sprintf("simrt.SendCase(__c%d_%d)", id, n))
			} else {
				cases = append(cases, fmt.Sprintf("simrt.RecvCase(__c%d_%d)", id, n))
			}
			n++
		}
		fmt.Fprintf(&b, "__i%d, __h%d := simrt.Select(%s", id, id, hasDef)
		for _, c := range cases {
			b.WriteString(", " + c)
		}
		fmt.Fprintf(&b, "); _ = __h%d; switch __i%d {", id, id)
		return b.String()
	})
	n := 0
	for _, c := range cls {
		c := c
		idx := n
		if !c.isDef {
			n++
		}
		// clause header: `case <comm>:` or `default:`
		hs, he := fs.off(c.cc.Case), fs.off(c.cc.Colon)+1
		var cself *edit
		cself = fs.add(hs, he, true, func() string {
			if c.isDef {
				return "default:"
			}
			ch := fmt.Sprintf("__c%d_%d", id, idx)
			has := fmt.Sprintf("__h%d", id)
			switch {
			case c.val != nil:
				return fmt.Sprintf("case %d: %s.PutSelected(__x%d_%d);", idx, ch, id, idx)
			case len(c.lhs) == 0:
				return fmt.Sprintf("case %d: %s.TakeSelected(%s);", idx, ch, has)
			case len(c.lhs) == 1:
				return fmt.Sprintf("case %d: %s %s %s.TakeSelected1(%s);", idx, fs.renderNode(c.lhs[0], cself), c.tok, ch, has)
			default:
				return fmt.Sprintf("case %d: %s, %s %s %s.TakeSelected(%s);", idx, fs.renderNode(c.lhs[0], cself), fs.renderNode(c.lhs[1], cself), c.tok, ch, has)
			}
		})
	}
	ce := fs.off(sel.Body.Rbrace) + 1
	fs.add(ce, ce, false, func() string { return " }" })
	rep.Edits["R8 select"]++
	return true
}

func unparen(e ast.Expr) ast.Expr {
	for {
		p, ok := e.(*ast.ParenExpr)
		if !ok {
			return e
		}
		e = p.X
	}
}
