module verif.local/simrewrite

go 1.21
