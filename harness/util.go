package main

import (
	"fmt"
	"math"
	"reflect"
	"sort"
	"strconv"
	"strings"

	at "github.com/DanielSvub/anytype"
)

// ---- hashing -------------------------------------------------------------

func fnv(h uint64, b ...uint64) uint64 {
	if h == 0 {
		h = 1469598103934665603
	}
	for _, x := range b {
		for i := 0; i < 8; i++ {
			h ^= x & 0xff
			h *= 1099511628211
			x >>= 8
		}
	}
	return h
}

func hashString(s string) uint64 {
	h := uint64(1469598103934665603)
	for i := 0; i < len(s); i++ {
		h ^= uint64(s[i])
		h *= 1099511628211
	}
	return h
}

// ptrOf returns the identity of a container value (0 for anything else).
func ptrOf(v any) uintptr {
	if v == nil {
		return 0
	}
	rv := reflect.ValueOf(v)
	if rv.Kind() == reflect.Ptr {
		return rv.Pointer()
	}
	return 0
}

// digest is a fixed-size, kind-exact fingerprint of a value handed to a callback:
// scalars by kind and value, containers by identity. It dereferences nothing but
// the value's own box, so it can be computed by any goroutine.
func digest(v any) uint64 {
	switch x := v.(type) {
	case nil:
		return fnv(0, 1)
	case bool:
		if x {
			return fnv(0, 2, 1)
		}
		return fnv(0, 2, 0)
	case int:
		return fnv(0, 3, uint64(x))
	case float64:
		return fnv(0, 4, math.Float64bits(x))
	case string:
		return fnv(0, 5, hashString(x))
	case at.List:
		return fnv(0, 6, uint64(ptrOf(x)))
	case at.Object:
		return fnv(0, 7, uint64(ptrOf(x)))
	}
	return fnv(0, 99, hashString(fmt.Sprintf("%T", v)))
}

// ---- canonical rendering ---------------------------------------------------

// namer gives stable names to the containers of the shared heap, so that
// canonical forms can say "the identical container" without printing addresses.
type namer map[uintptr]string

func (n namer) name(v any) string {
	if n == nil {
		return ""
	}
	return n[ptrOf(v)]
}

func canonFloat(f float64) string {
	return "f" + strconv.FormatUint(math.Float64bits(f), 16)
}

// canon renders any value the API can return in a canonical, kind-exact,
// order-insensitive (for objects and Go maps) form. Known heap containers are
// prefixed with their name; depth is bounded by the acyclic heap.
func canon(v any, nm namer) string {
	var b strings.Builder
	canonTo(&b, v, nm, 0)
	return b.String()
}

func canonTo(b *strings.Builder, v any, nm namer, depth int) {
	if depth > 12 {
		b.WriteString("<deep>")
		return
	}
	switch x := v.(type) {
	case nil:
		b.WriteString("nil")
	case bool:
		fmt.Fprintf(b, "b%v", x)
	case int:
		fmt.Fprintf(b, "i%d", x)
	case float64:
		b.WriteString(canonFloat(x))
	case string:
		b.WriteString("s" + strconv.Quote(x))
	case at.Type:
		fmt.Fprintf(b, "T%d", x)
	case at.List:
		if x == nil || reflect.ValueOf(x).IsNil() {
			b.WriteString("List(nil)")
			return
		}
		b.WriteString(nm.name(x))
		b.WriteString("[")
		n := x.Count()
		for i := 0; i < n; i++ {
			if i > 0 {
				b.WriteString(",")
			}
			canonTo(b, x.Get(i), nm, depth+1)
		}
		b.WriteString("]")
	case at.Object:
		if x == nil || reflect.ValueOf(x).IsNil() {
			b.WriteString("Object(nil)")
			return
		}
		b.WriteString(nm.name(x))
		d := x.Dict()
		keys := make([]string, 0, len(d))
		for k := range d {
			keys = append(keys, k)
		}
		sort.Strings(keys)
		b.WriteString("{")
		for i, k := range keys {
			if i > 0 {
				b.WriteString(",")
			}
			b.WriteString(strconv.Quote(k))
			b.WriteString(":")
			canonTo(b, d[k], nm, depth+1)
		}
		b.WriteString("}")
	case []any:
		b.WriteString("go[")
		for i, e := range x {
			if i > 0 {
				b.WriteString(",")
			}
			canonTo(b, e, nm, depth+1)
		}
		b.WriteString("]")
	case map[string]any:
		keys := make([]string, 0, len(x))
		for k := range x {
			keys = append(keys, k)
		}
		sort.Strings(keys)
		b.WriteString("go{")
		for i, k := range keys {
			if i > 0 {
				b.WriteString(",")
			}
			b.WriteString(strconv.Quote(k))
			b.WriteString(":")
			canonTo(b, x[k], nm, depth+1)
		}
		b.WriteString("}")
	case []at.Object:
		b.WriteString("objs[")
		for i, e := range x {
			if i > 0 {
				b.WriteString(",")
			}
			canonTo(b, e, nm, depth+1)
		}
		b.WriteString("]")
	case []at.List:
		b.WriteString("lists[")
		for i, e := range x {
			if i > 0 {
				b.WriteString(",")
			}
			canonTo(b, e, nm, depth+1)
		}
		b.WriteString("]")
	case []string:
		fmt.Fprintf(b, "strs%q", x)
	case []bool:
		fmt.Fprintf(b, "bools%v", x)
	case []int:
		fmt.Fprintf(b, "ints%v", x)
	case []float64:
		b.WriteString("floats[")
		for i, e := range x {
			if i > 0 {
				b.WriteString(",")
			}
			b.WriteString(canonFloat(e))
		}
		b.WriteString("]")
	default:
		// typed map / slice flavours: render through their generic view (never print addresses)
		if m, ok := asMap(v); ok {
			fmt.Fprintf(b, "%T", v)
			canonTo(b, m, nm, depth)
			return
		}
		if s, ok := asSlice(v); ok {
			fmt.Fprintf(b, "%T", v)
			canonTo(b, s, nm, depth)
			return
		}
		fmt.Fprintf(b, "<%T>", v)
	}
}

// canonMultiset renders the elements of a list as a sorted multiset (for results whose order the API leaves open).
func canonMultiset(l at.List, nm namer) string {
	n := l.Count()
	parts := make([]string, n)
	for i := 0; i < n; i++ {
		parts[i] = canon(l.Get(i), nm)
	}
	sort.Strings(parts)
	return "multiset(" + strings.Join(parts, ",") + ")"
}

// try runs f and reports a panic as a value instead of propagating it.
func try(f func()) (panicked bool, msg string) {
	defer func() {
		if r := recover(); r != nil {
			panicked, msg = true, fmt.Sprint(r)
		}
	}()
	f()
	return
}

func short(s string, n int) string {
	if len(s) <= n {
		return s
	}
	return s[:n] + fmt.Sprintf("…(+%d)", len(s)-n)
}

// ---- value pools -----------------------------------------------------------

var stringPool = []string{
	"", "a", "b", "key", "value", "x y", "with \"quote\"", "back\\slash", "tab\tnl\n", "\x00\x1f",
	"é", "日本", "😀", "}", "]", "[{", ",", ":", "null", "12", "a.b", "a#1", " ", "true",
	"\\", "ends with backslash\\", "q\"\\", "\\\\", "}]", "\"]",
}

var keyPool = []string{
	"", "a", "b", "c", "d", "k1", "k2", "key", "with \"quote\"", "a.b", "x#1", "é", "日本", "😀", "}", "{", "back\\slash", "nl\n", "k\\", "]",
	"A", "Key", "key ", " key", "e\u0301", "KEY", "a very long key that is longer than thirty-two bytes, to be sure", "k\x00", "ａ",
	"a\xff", "a\xfe", "\xc3", "\xed\xa0\x80", // not valid UTF-8: still arbitrary strings
}

// plainKeyPool holds keys usable as tree-form path segments.
var plainKeyPool = []string{"a", "b", "c", "d", "k1", "key", "é", "日本", "0", "12", "x y", "A", "Key", "KEY", "K1", "É", "name", "Name"}

var intPool = []int{0, 1, -1, 2, 7, 42, -100, 1 << 31, math.MaxInt, math.MinInt, 1000000,
	255, 256, 65535, 65536, 1<<31 - 1, 1 << 32, 1 << 53, -(1 << 53), 1<<53 + 1, math.MaxInt - 1, math.MinInt + 1, 10, 100}

var floatPool = []float64{0.5, -0.5, 1.5, 3.14, 1e-7, 1e300, -1e300, 2.0, math.Copysign(0, -1), 0.0, math.Inf(1), math.Inf(-1), 1e6, 123456.789,
	// pairs of distinct floats that are nearly equal (tolerant comparisons confuse them)
	0.3, 0.1 + 0.2, 1.0, math.Nextafter(1, 2), 1e21, math.Nextafter(1e21, math.Inf(1)), 5e-324, 1e-323,
	1e20, 1e15, 1e16, 9007199254740993, math.MaxFloat64, -math.MaxFloat64, 1e-6, 999999.9999999999, 0.000001, 100, 4294967296}

// drawer is the minimal decision source generators need (a *simrt.Sim inside a run, a Chooser outside).
type drawer interface {
	Draw(label string, n int) int
}

func genScalar(d drawer) any {
	switch d.Draw("scalar-kind", 5) {
	case 0:
		return nil
	case 1:
		return d.Draw("bool", 2) == 1
	case 2:
		return intPool[d.Draw("int", len(intPool))]
	case 3:
		return floatPool[d.Draw("float", len(floatPool))]
	}
	return stringPool[d.Draw("string", len(stringPool))]
}

// genJSONScalar avoids the non-finite floats (which have no JSON form).
func genJSONScalar(d drawer) any {
	for {
		v := genScalar(d)
		if f, ok := v.(float64); ok && (math.IsInf(f, 0) || math.IsNaN(f)) {
			return 1.25
		}
		return v
	}
}

// genTree builds a container through the public API. depth bounds nesting,
// width the number of slots. spare asks for lists with unused capacity
// (grown with Add, shrunk with Pop/Delete), the hidden state behind C09/C15.
type treeOpts struct {
	depth, width int
	spare        bool
	jsonSafe     bool
	keys         []string
}

func genValue(d drawer, o treeOpts) any {
	if o.depth > 0 {
		switch d.Draw("value-kind", 6) {
		case 0:
			return genList(d, treeOpts{o.depth - 1, o.width, o.spare, o.jsonSafe, o.keys})
		case 1:
			return genObject(d, treeOpts{o.depth - 1, o.width, o.spare, o.jsonSafe, o.keys})
		}
	}
	if o.jsonSafe {
		return genJSONScalar(d)
	}
	return genScalar(d)
}

func genList(d drawer, o treeOpts) at.List {
	n := d.Draw("list-len", o.width+1)
	l := at.NewList()
	for i := 0; i < n; i++ {
		l.Add(genValue(d, o))
	}
	if o.spare && d.Draw("spare", 2) == 1 {
		k := 1 + d.Draw("spare-n", 3)
		for i := 0; i < k; i++ {
			l.Add(i)
		}
		for i := 0; i < k; i++ {
			l.Pop()
		}
	}
	return l
}

func genObject(d drawer, o treeOpts) at.Object {
	keys := o.keys
	if keys == nil {
		keys = keyPool
	}
	n := d.Draw("obj-len", o.width+1)
	ob := at.NewObject()
	for i := 0; i < n; i++ {
		ob.Set(keys[d.Draw("key", len(keys))], genValue(d, o))
	}
	return ob
}

func init() {
	// a few long strings: thresholds on string length (small-string optimisations, buffers) lie far above the pool's usual sizes
	stringPool = append(stringPool, strings.Repeat("long-", 60), strings.Repeat("é", 40), strings.Repeat("x", 5000),
		"caf\xe9", "\xff\xfe\x00raw", "\xc3", "a\x80b") // not valid UTF-8: still Go strings a container must hold unchanged
	keyPool = append(keyPool, strings.Repeat("K", 300))
}
