package main

// Operations of the `hist` engine: each draws its arguments, runs against the real library
// and the reference model, and states what it expects (DESIGN appendix B).

import (
	"errors"
	"fmt"
	"math"
	"runtime"
	"sort"
	"strconv"
	"strings"
	"time"

	at "github.com/DanielSvub/anytype"
	"verif.local/simrt"
)

// ---- derived structures (C19) -------------------------------------------------------------------

type DList struct {
	at.List
	tag string
}

func NewDList(values ...any) *DList {
	d := &DList{List: at.NewList(values...), tag: "derived"}
	d.Init(d)
	return d
}

// DDList embeds a derived list: two embedding levels.
type DDList struct {
	*DList
	extra int
}

func NewDDList(values ...any) *DDList {
	d := &DDList{DList: NewDList(values...), extra: 2}
	d.Init(d)
	return d
}

// DDDList: three embedding levels.
type DDDList struct {
	*DDList
	more string
}

func NewDDDList(values ...any) *DDDList {
	d := &DDDList{DDList: NewDDList(values...), more: "3"}
	d.Init(d)
	return d
}

// DDObject embeds a derived object (two levels).
type DDObject struct {
	*DObject
	extra int
}

func NewDDObject(values ...any) *DDObject {
	d := &DDObject{DObject: NewDObject(values...), extra: 2}
	d.Init(d)
	return d
}

type DObject struct {
	at.Object
	tag string
}

func NewDObject(values ...any) *DObject {
	d := &DObject{Object: at.NewObject(values...), tag: "derived"}
	d.Init(d)
	return d
}

// rejected values: Go types the library refuses to store
type rejectT struct{ x int }

func rejectedValue(d drawer) any {
	switch d.Draw("reject-kind", 3) {
	case 0:
		return rejectT{1}
	case 1:
		return []int8{1, 2}
	}
	return make(chan int)
}

// ---- step framing ---------------------------------------------------------------------------------

// key arguments that are not strings although they can render themselves as text
type stringerKey struct{ s string }

func (k stringerKey) String() string { return k.s }

type textKey struct{ s string }

func (k textKey) MarshalText() ([]byte, error) { return []byte(k.s), nil }

func (h *Hist) begin(op string, owners ...string) {
	h.step++
	h.group++
	h.curOp = op
	h.curOwner = owners
	h.obsArg = ""
	if h.unchecked == 0 {
		if len(h.dirty) > 0 {
			h.prevDirty = h.dirty
		}
		h.dirty = map[int]bool{}
	} // (otherwise: a stretch without full reads is in progress, what it may change accumulates)
	h.counters["op:"+op]++
	h.opSeq = fnv(h.opSeq, hashString(op))
}

func (h *Hist) touch(n *Node) {
	h.dirty[n.ID] = true
	h.lastTouch[n.ID] = h.step
	if h.aliased {
		h.mutAfterAlias = true
	}
}

func (h *Hist) call(f func()) (bool, string) {
	return try(f)
}

func (h *Hist) ownerOf(n *Node) []string {
	if n.IsObj {
		return []string{"C06"}
	}
	return []string{"C05"}
}

func (h *Hist) mustPanic(p bool, why string) bool {
	if !p {
		h.fail("panic-missing", h.curOp, h.curOwner, h.curOp+" did not panic: "+why)
		return false
	}
	h.counters["panic:"+h.curOp]++
	return true
}

func (h *Hist) mustNotPanic(p bool, msg string) bool {
	if p {
		h.fail("unexpected-panic", h.curOp, h.curOwner, h.curOp+" panicked on arguments inside its documented domain: "+msg)
		return false
	}
	return true
}

// checkRet: a method documented as returning the updated/unchanged container returns the registered value.
func (h *Hist) checkRet(ret any, n *Node) {
	if h.dead {
		return
	}
	if n.Derived > 0 {
		h.counters["probe:fluent-on-derived-"+h.curOp]++
	}
	if ret != n.Impl {
		own := h.curOwner
		if n.Derived > 0 {
			own = []string{"C19"}
		}
		h.fail("return-identity", h.curOp, own, fmt.Sprintf("%s on %s (embedding level %d) returned %s instead of the registered value", h.curOp, n.Name, n.Derived, typeOfGo(ret)))
	}
}

// ---- picking ---------------------------------------------------------------------------------------

func (h *Hist) bound(isObj, wantObj bool, any bool) []*Node {
	var out []*Node
	for _, n := range h.nodes {
		if n.Impl == nil {
			continue
		}
		if any || n.IsObj == wantObj {
			out = append(out, n)
		}
	}
	return out
}

// Picks have locality: a third of the time the container the previous step worked on is chosen again, so that
// multi-step interactions on ONE container (Sort, Reverse, Sort; Pop, Pop, Add; Set, Keys, Set) are common.
func (h *Hist) again(wantObj, any bool) *Node {
	if f := h.force; f != nil && f.Impl != nil && (any || f.IsObj == wantObj) {
		// inside an observe-mutate-observe sandwich every pick that can goes to the same container
		h.last = f
		return f
	}
	if h.last != nil && h.last.Impl != nil && (any || h.last.IsObj == wantObj) && h.d.Draw("pick-again", 3) == 0 {
		return h.last
	}
	return nil
}

func (h *Hist) pickList() *Node {
	if n := h.again(false, false); n != nil {
		return n
	}
	c := h.bound(false, false, false)
	if len(c) == 0 {
		return nil
	}
	h.last = c[h.d.Draw("pick-list", len(c))]
	return h.last
}

func (h *Hist) pickObj() *Node {
	if n := h.again(true, false); n != nil {
		return n
	}
	c := h.bound(true, true, false)
	if len(c) == 0 {
		return nil
	}
	h.last = c[h.d.Draw("pick-obj", len(c))]
	return h.last
}

func (h *Hist) pickAny() *Node {
	if n := h.again(false, true); n != nil {
		return n
	}
	n := h.pickAnyFresh()
	if n != nil {
		h.last = n
	}
	return n
}

func (h *Hist) pickAnyFresh() *Node {
	c := h.bound(false, false, true)
	if len(c) == 0 {
		return nil
	}
	if len(c) > 40 && h.d.Draw("pick-root", 3) == 0 {
		// large heaps (huge / deep size classes): a third of the picks go to the oldest containers, the roots
		return c[h.d.Draw("pick-node", 4)]
	}
	return c[h.d.Draw("pick-node", len(c))]
}

func (h *Hist) plain(n *Node) bool { return n != nil && n.Derived == 0 }

func (h *Hist) hasDerivedBelow(n *Node) bool {
	for x := range reach(n) {
		if x.Derived > 0 {
			return true
		}
	}
	return false
}

func (h *Hist) room() bool { return len(h.nodes) < h.maxNodes }

// genScalarM draws a scalar as model value.
func (h *Hist) genScalarM() MVal {
	switch v := genScalar(h.d).(type) {
	case nil:
		return mNil()
	case bool:
		return mBool(v)
	case int:
		return mInt(v)
	case float64:
		return mFloat(v)
	case string:
		return mString(v)
	}
	return mNil()
}

// modelOfNative converts a Go tree to the model value the library must store for it: fresh containers.
func (h *Hist) modelOfNative(v any, op string) MVal {
	switch x := v.(type) {
	case nil:
		return mNil()
	case bool:
		return mBool(x)
	case int:
		return mInt(x)
	case float64:
		return mFloat(x)
	case string:
		return mString(x)
	case at.List, at.Object:
		return mRef(h.byPtr[ptrOf(x)])
	}
	if s, ok := asSlice(v); ok {
		n := h.newPending(false, op, pendFresh, nil)
		for _, e := range s {
			n.Elems = append(n.Elems, h.modelOfNative(e, op))
		}
		return mRef(n)
	}
	if m, ok := asMap(v); ok {
		n := h.newPending(true, op, pendFresh, nil)
		keys := make([]string, 0, len(m))
		for k := range m {
			keys = append(keys, k)
		}
		sort.Strings(keys)
		for _, k := range keys {
			n.Fields[k] = h.modelOfNative(m[k], op)
		}
		return mRef(n)
	}
	return mNil()
}

// genVal draws a value to store into target (nil = a new container): a scalar, an existing
// container that does not reach target (acyclic), or a small Go tree.
func (h *Hist) genVal(target *Node, trees bool) (any, MVal) {
	switch k := h.d.Draw("val-kind", 10); {
	case k < 3:
		cands := h.bound(false, false, true)
		var ok []*Node
		for _, c := range cands {
			if target != nil && (c == target || reach(c)[target]) {
				continue
			}
			if !h.derivedOK && c.Derived > 0 {
				continue
			}
			ok = append(ok, c)
		}
		if len(ok) > 0 {
			c := ok[h.d.Draw("val-node", len(ok))]
			h.aliased = true
			return c.Impl, mRef(c)
		}
	case k == 3 && trees && h.room():
		if len(h.recentTrees) > 0 && h.d.Draw("tree-again", 3) == 0 {
			// the very same Go map or slice as in an earlier call (sometimes modified in place between two operations): every conversion is a
			// copy of what the value holds now, two conversions of one value give two independent containers
			t := h.recentTrees[h.d.Draw("tree-which", len(h.recentTrees))]
			h.counters["probe:same-go-value-passed-again"]++
			return t, h.modelOfNative(t, h.curOp)
		}
		t := genNativeTree(h.d, 2, 3)
		switch t.(type) {
		case map[string]any, []any:
			if len(h.recentTrees) < 6 {
				h.recentTrees = append(h.recentTrees, t)
			} else {
				h.recentTrees[h.d.Draw("tree-slot", 6)] = t
			}
		}
		return t, h.modelOfNative(t, h.curOp)
	}
	m := h.genScalarM()
	return m.goValue(), m
}

// boundary index: -1, 0, mid, n-1, n, n+1, -n
func (h *Hist) index(n int) int {
	if h.hintIndex >= 0 && h.hintIndex < n && h.d.Draw("idx-hint", 2) == 0 {
		return h.hintIndex
	}
	if h.d.Draw("idx-far", 12) == 0 {
		return []int{n + 1000, -1000, math.MaxInt, math.MinInt, n + 7, -n - 1, 1 << 32}[h.d.Draw("idx-far-which", 7)]
	}
	switch h.d.Draw("idx-class", 8) {
	case 0:
		return -1
	case 1:
		return n
	case 2:
		return n + 1
	case 3:
		return n - 1
	case 4:
		return 0
	case 5:
		return -n
	}
	if n <= 0 {
		return 0
	}
	return h.d.Draw("idx", n)
}

func (h *Hist) validIndex(n int) int {
	if h.hintIndex >= 0 && h.hintIndex < n && h.d.Draw("idx-hint", 2) == 0 {
		return h.hintIndex
	}
	if n <= 0 {
		return 0
	}
	return h.d.Draw("idx", n)
}

// ---- constructors -----------------------------------------------------------------------------------

func opNewList(h *Hist) {
	if !h.room() {
		return
	}
	h.begin("NewList", "C05")
	k := h.tail("n-values", 5, 40)
	var gvs []any
	n := h.newNode(false, "NewList")
	n.Pend = &pending{mode: pendFresh, group: h.group}
	for i := 0; i < k; i++ {
		gv, mv := h.genVal(nil, true)
		gvs = append(gvs, gv)
		n.Elems = append(n.Elems, mv)
	}
	var l at.List
	p, msg := h.call(func() { l = at.NewList(gvs...) })
	if !h.mustNotPanic(p, msg) {
		return
	}
	if h.bindResult(n, l, h.curOwner) {
		h.tracef("%s := NewList(%s)", n.Name, renderVals(n.Elems))
	}
}

func renderVals(vs []MVal) string {
	parts := make([]string, len(vs))
	for i, v := range vs {
		if v.isRef() {
			parts[i] = v.N.render(1)
		} else {
			parts[i] = v.String()
		}
	}
	return strings.Join(parts, ", ")
}

// opNewHomogeneous makes a list inside Sort's domain.
func opNewHomogeneous(h *Hist) {
	if !h.room() {
		return
	}
	h.begin("NewList", "C05")
	k := 1 + h.d.Draw("n-values", 6)
	kind := h.d.Draw("homog-kind", 3)
	var gvs []any
	n := h.newNode(false, "NewList")
	n.Pend = &pending{mode: pendFresh, group: h.group}
	for i := 0; i < k; i++ {
		var mv MVal
		switch kind {
		case 0:
			mv = mString(stringPool[h.d.Draw("string", len(stringPool))])
		case 1:
			mv = mInt(intPool[h.d.Draw("int", len(intPool))])
		default:
			mv = mFloat(floatPool[h.d.Draw("float", len(floatPool))])
		}
		gvs = append(gvs, mv.goValue())
		n.Elems = append(n.Elems, mv)
	}
	var l at.List
	p, msg := h.call(func() { l = at.NewList(gvs...) })
	if !h.mustNotPanic(p, msg) {
		return
	}
	if h.bindResult(n, l, h.curOwner) {
		h.tracef("%s := NewList(%s)", n.Name, renderVals(n.Elems))
	}
}

func opNewListOf(h *Hist) {
	if !h.room() {
		return
	}
	h.begin("NewListOf", "C05")
	gv, mv := h.genVal(nil, false)
	c := h.tail("count", 5, 300)
	n := h.newNode(false, "NewListOf")
	n.Pend = &pending{mode: pendFresh, group: h.group}
	for i := 0; i < c; i++ {
		n.Elems = append(n.Elems, mv)
	}
	var l at.List
	p, msg := h.call(func() { l = at.NewListOf(gv, c) })
	if !h.mustNotPanic(p, msg) {
		return
	}
	if mv.isRef() && c > 0 {
		h.counters["probe:NewListOf-container"]++
	}
	if h.bindResult(n, l, h.curOwner) {
		h.tracef("%s := NewListOf(%s, %d)", n.Name, mv, c)
	}
}

func opNewObject(h *Hist) {
	if !h.room() {
		return
	}
	h.begin("NewObject", "C06")
	k := h.tail("n-pairs", 4, 14)
	var args []any
	n := h.newNode(true, "NewObject")
	n.Pend = &pending{mode: pendFresh, group: h.group}
	var desc []string
	for i := 0; i < k; i++ {
		key := h.genKey(n)
		gv, mv := h.genVal(nil, true)
		args = append(args, key, gv)
		n.Fields[key] = mv
		desc = append(desc, strconv.Quote(key)+", "+mv.String())
	}
	var o at.Object
	p, msg := h.call(func() { o = at.NewObject(args...) })
	if !h.mustNotPanic(p, msg) {
		return
	}
	if h.bindResult(n, o, h.curOwner) {
		h.tracef("%s := NewObject(%s)", n.Name, strings.Join(desc, ", "))
	}
}

// genKey draws a key: an existing key of n (overwrite), or one from the pool.
func (h *Hist) genKey(n *Node) string {
	pool := keyPool
	if h.prop == "C11" || h.prop == "C08" {
		pool = plainKeyPool
	}
	if n != nil && len(n.Fields) > 0 && h.d.Draw("key-existing", 3) == 0 {
		ks := n.keys()
		return ks[h.d.Draw("key-which", len(ks))]
	}
	return pool[h.d.Draw("key", len(pool))]
}

func opNewDerived(h *Hist) {
	if !h.room() {
		return
	}
	h.begin("NewDerived", "C19")
	kind := h.d.Draw("derived-kind", 5)
	switch kind {
	case 0, 1, 3:
		n := h.newNode(false, "NewDerived")
		n.Derived = 1 + kind
		if kind == 3 {
			n.Derived = 3
		}
		k := h.d.Draw("n-values", 4)
		var gvs []any
		homog := h.d.Draw("derived-homogeneous", 4) == 0
		for i := 0; i < k; i++ {
			gv, mv := h.genVal(nil, false)
			if homog {
				mv = mInt(intPool[h.d.Draw("int", len(intPool))])
				gv = mv.goValue()
			}
			gvs = append(gvs, gv)
			n.Elems = append(n.Elems, mv)
		}
		var l at.List
		// (registering a derived structure — Init at every embedding level, as in the README — is part of what C19 describes)
		p, msg := h.call(func() {
			switch kind {
			case 0:
				l = NewDList(gvs...)
			case 1:
				l = NewDDList(gvs...)
			default:
				l = NewDDDList(gvs...)
			}
		})
		n.Name = []string{"DL", "DDL", "", "DDDL"}[kind] + strconv.Itoa(n.ID)
		if !h.mustNotPanic(p, msg) {
			h.dropNode(n)
			return
		}
		h.bind(n, l)
		h.verifyFrom(n, []string{"C19"})
		h.tracef("%s := derived list(%s)", n.Name, renderVals(n.Elems))
	default:
		n := h.newNode(true, "NewDerived")
		n.Derived = 1
		n.Name = "DO" + strconv.Itoa(n.ID)
		k := h.d.Draw("n-pairs", 3)
		var args []any
		for i := 0; i < k; i++ {
			key := plainKeyPool[h.d.Draw("key", len(plainKeyPool))]
			gv, mv := h.genVal(nil, false)
			args = append(args, key, gv)
			n.Fields[key] = mv
		}
		var o at.Object
		if kind == 4 {
			n.Derived = 2
			n.Name = "DDO" + strconv.Itoa(n.ID)
		}
		p, msg := h.call(func() {
			if kind == 4 {
				o = NewDDObject(args...)
			} else {
				o = NewDObject(args...)
			}
		})
		if !h.mustNotPanic(p, msg) {
			h.dropNode(n)
			return
		}
		h.bind(n, o)
		h.verifyFrom(n, []string{"C19"})
		h.tracef("%s := derived object %s", n.Name, n.render(1))
	}
	h.counters["probe:derived-level-"+strconv.Itoa(h.nodes[len(h.nodes)-1].Derived)]++
}

// ---- list mutators ---------------------------------------------------------------------------------

func opAdd(h *Hist) {
	n := h.pickList()
	if n == nil || len(n.Elems) >= h.maxSlots {
		return
	}
	h.begin("Add", "C05")
	l := n.list()
	k := 1
	switch h.d.Draw("add-multi", 8) {
	case 0, 1:
		k = 2 + h.d.Draw("add-n", 2)
		if h.big {
			k = 2 + h.d.Draw("add-n-big", 12)
		}
	case 2:
		k = 0 // Add() with no value: nothing changes, the receiver is returned
		h.counters["probe:zero-argument-call"]++
	}
	rejectAt := -1
	if h.faults() && k > 0 && h.d.Draw("fault-reject", 12) == 0 {
		rejectAt = h.d.Draw("reject-at", k)
	}
	var gvs []any
	var mvs []MVal
	for i := 0; i < k; i++ {
		if i == rejectAt {
			gvs = append(gvs, rejectedValue(h.d))
			mvs = append(mvs, mNil())
			continue
		}
		gv, mv := h.genVal(n, k == 1)
		gvs = append(gvs, gv)
		mvs = append(mvs, mv)
	}
	before := len(n.Elems)
	capGrow := before
	var ret at.List
	p, msg := h.call(func() { ret = l.Add(gvs...) })
	h.touch(n)
	if rejectAt >= 0 {
		h.counters["fault:rejected-value"]++
		h.tracef("%s.Add(%d values, rejected value at %d) panicked=%v", n.Name, k, rejectAt, p)
		if !p {
			h.adopt(n) // storing or not is C12's business
			return
		}
		// a prefix of the arguments may have been appended; a single-value Add must leave the list unchanged
		got := l.Count()
		if got < before || got > before+rejectAt {
			h.fail("atomicity", "Add", h.curOwner, fmt.Sprintf("%s.Add with a rejected value at position %d panicked and left %d elements (had %d)", n.Name, rejectAt, got, before))
			return
		}
		n.Elems = append(n.Elems, mvs[:got-before]...)
		h.heapCheck()
		return
	}
	if !h.mustNotPanic(p, msg) {
		return
	}
	n.Elems = append(n.Elems, mvs...)
	if len(n.Elems) > capGrow {
		h.counters["probe:list-growth"]++
	}
	h.tracef("%s.Add(%s)", n.Name, renderVals(mvs))
	h.checkRet(ret, n)
	h.heapCheck()
}

func (h *Hist) faults() bool { return h.prop == "C05" || h.prop == "C06" }

func opInsert(h *Hist) {
	n := h.pickList()
	if n == nil || len(n.Elems) >= h.maxSlots {
		return
	}
	h.begin("Insert", "C05")
	l := n.list()
	cnt := len(n.Elems)
	idx := h.validIndex(cnt + 1)
	if h.faults() || h.d.Draw("insert-boundary", 3) == 0 {
		idx = h.index(cnt)
	}
	reject := h.faults() && h.d.Draw("fault-reject", 10) == 0
	var gv any
	var mv MVal
	if reject {
		gv, mv = rejectedValue(h.d), mNil()
	} else {
		gv, mv = h.genVal(n, true)
	}
	valid := idx >= 0 && idx <= cnt
	var ret at.List
	p, msg := h.call(func() { ret = l.Insert(idx, gv) })
	h.touch(n)
	h.tracef("%s.Insert(%d, %s) valid=%v rejected=%v panicked=%v", n.Name, idx, mv, valid, reject, p)
	switch {
	case !valid:
		h.counters["fault:index-out-of-domain"]++
		if h.mustPanic(p, fmt.Sprintf("index %d outside 0..%d", idx, cnt)) {
			h.atomicCheck(n, "Insert")
		}
		return
	case reject:
		h.counters["fault:rejected-value"]++
		if p {
			h.atomicCheck(n, "Insert")
		} else {
			h.adopt(n)
		}
		return
	}
	if !h.mustNotPanic(p, msg) {
		return
	}
	if idx == 0 {
		h.counters["probe:insert-at-0"]++
	}
	if idx == cnt {
		h.counters["probe:insert-at-n"]++
	}
	n.Elems = append(n.Elems, MVal{})
	copy(n.Elems[idx+1:], n.Elems[idx:])
	n.Elems[idx] = mv
	h.checkRet(ret, n)
	h.heapCheck()
}

// atomicCheck: a panicking single-slot operation leaves every list unchanged (model untouched).
func (h *Hist) atomicCheck(n *Node, op string) {
	if h.dead {
		return
	}
	if mm := h.checkNode(n); mm != nil {
		h.fail("atomicity", op, h.curOwner, fmt.Sprintf("%s panicked but changed its receiver: %s", op, mm.msg))
		return
	}
	h.dirty = map[int]bool{}
	h.heapCheck()
}

func opReplace(h *Hist) {
	n := h.pickList()
	if n == nil {
		return
	}
	h.begin("Replace", "C05")
	l := n.list()
	cnt := len(n.Elems)
	idx := h.validIndex(cnt)
	if h.faults() || cnt == 0 || h.d.Draw("replace-boundary", 4) == 0 {
		idx = h.index(cnt)
	}
	reject := h.faults() && h.d.Draw("fault-reject", 10) == 0
	var gv any
	var mv MVal
	if reject {
		gv, mv = rejectedValue(h.d), mNil()
	} else {
		gv, mv = h.genVal(n, true)
	}
	valid := idx >= 0 && idx < cnt
	var ret at.List
	p, msg := h.call(func() { ret = l.Replace(idx, gv) })
	h.touch(n)
	h.tracef("%s.Replace(%d, %s) valid=%v rejected=%v panicked=%v", n.Name, idx, mv, valid, reject, p)
	switch {
	case !valid:
		h.counters["fault:index-out-of-domain"]++
		if h.mustPanic(p, fmt.Sprintf("index %d outside 0..%d", idx, cnt-1)) {
			h.atomicCheck(n, "Replace")
		}
		return
	case reject:
		h.counters["fault:rejected-value"]++
		if p {
			h.atomicCheck(n, "Replace")
		} else {
			h.adopt(n)
		}
		return
	}
	if !h.mustNotPanic(p, msg) {
		return
	}
	n.Elems[idx] = mv
	h.checkRet(ret, n)
	h.heapCheck()
}

func opDelete(h *Hist) {
	n := h.pickList()
	if n == nil {
		return
	}
	h.begin("Delete", "C05")
	l := n.list()
	cnt := len(n.Elems)
	mode := h.d.Draw("delete-mode", 6)
	var idxs []int
	valid := true
	multiInvalid := false
	if h.faults() && cnt >= 1 && h.d.Draw("delete-multi-invalid", 8) == 0 {
		mode = 99
	}
	switch {
	case mode == 99:
		// several distinct indices, at least one outside 0..n-1: the call must panic (what is left of the list is not specified)
		k := 2 + h.d.Draw("delete-k", 3)
		seen := map[int]bool{}
		// one way to be wrong that looks right: the tail n-k+1..n, i.e. the last indices shifted up by one
		if h.d.Draw("delete-shifted-tail", 2) == 0 && k <= cnt+1 {
			for i := 0; i < k; i++ {
				idxs = append(idxs, cnt-k+1+i)
			}
		} else {
			for len(idxs) < k {
				i := h.d.Draw("delete-any", cnt+6) - 2
				if !seen[i] {
					seen[i] = true
					idxs = append(idxs, i)
				}
			}
		}
		for _, i := range idxs {
			if i < 0 || i >= cnt {
				multiInvalid = true
			}
		}
		if !multiInvalid {
			idxs = append(idxs, cnt)
			multiInvalid = true
		}
		// unsorted
		if len(idxs) > 1 && h.d.Draw("delete-swap", 2) == 0 {
			idxs[0], idxs[len(idxs)-1] = idxs[len(idxs)-1], idxs[0]
		}
		valid = false
	case mode == 0:
		// no index: nothing happens
	case mode <= 3 || cnt < 2:
		i := h.validIndex(cnt)
		if h.faults() || cnt == 0 || h.d.Draw("delete-boundary", 4) == 0 {
			i = h.index(cnt)
		}
		idxs = []int{i}
		valid = i >= 0 && i < cnt
	default:
		// several distinct valid indices, unsorted
		k := 2 + h.tail("delete-k", 2, 40)
		if k > cnt {
			k = cnt
		}
		perm := make([]int, cnt)
		for i := range perm {
			perm[i] = i
		}
		for i := 0; i < k; i++ {
			j := i + h.d.Draw("delete-pick", cnt-i)
			perm[i], perm[j] = perm[j], perm[i]
		}
		idxs = perm[:k]
		h.counters["probe:delete-multi-unsorted"]++
	}
	arg := append([]int(nil), idxs...)
	var ret at.List
	p, msg := h.call(func() { ret = l.Delete(arg...) })
	h.touch(n)
	h.tracef("%s.Delete(%v) valid=%v panicked=%v", n.Name, idxs, valid, p)
	if multiInvalid {
		h.counters["fault:index-out-of-domain"]++
		h.counters["probe:delete-multi-with-invalid-index"]++
		if h.mustPanic(p, fmt.Sprintf("Delete(%v) with an index outside 0..%d", idxs, cnt-1)) {
			h.adopt(n) // which of the valid indices were removed before the panic is not specified
			h.heapCheck()
		}
		return
	}
	if !valid {
		h.counters["fault:index-out-of-domain"]++
		if h.mustPanic(p, fmt.Sprintf("index %v outside 0..%d", idxs, cnt-1)) {
			h.atomicCheck(n, "Delete")
		}
		return
	}
	if !h.mustNotPanic(p, msg) {
		return
	}
	sorted := append([]int(nil), idxs...)
	sort.Sort(sort.Reverse(sort.IntSlice(sorted)))
	for _, i := range sorted {
		n.Elems = append(n.Elems[:i], n.Elems[i+1:]...)
	}
	h.checkRet(ret, n)
	h.heapCheck()
}

func opPop(h *Hist) {
	n := h.pickList()
	if n == nil {
		return
	}
	h.begin("Pop", "C05")
	l := n.list()
	var ret at.List
	p, msg := h.call(func() { ret = l.Pop() })
	h.touch(n)
	h.tracef("%s.Pop() panicked=%v", n.Name, p)
	if len(n.Elems) == 0 {
		h.counters["fault:index-out-of-domain"]++
		if h.mustPanic(p, "Pop on an empty list") {
			h.atomicCheck(n, "Pop")
		}
		return
	}
	if !h.mustNotPanic(p, msg) {
		return
	}
	n.Elems = n.Elems[:len(n.Elems)-1]
	h.counters["probe:spare-capacity"]++
	h.checkRet(ret, n)
	h.heapCheck()
}

func opClear(h *Hist) {
	n := h.pickAny()
	if n == nil {
		return
	}
	h.begin("Clear", h.ownerOf(n)...)
	var ret any
	p, msg := h.call(func() {
		if n.IsObj {
			ret = n.object().Clear()
		} else {
			ret = n.list().Clear()
		}
	})
	h.touch(n)
	h.tracef("%s.Clear()", n.Name)
	if !h.mustNotPanic(p, msg) {
		return
	}
	n.Elems = nil
	if n.IsObj {
		n.Fields = map[string]MVal{}
	}
	h.checkRet(ret, n)
	h.heapCheck()
}

func opReverse(h *Hist) {
	n := h.pickList()
	if n == nil {
		return
	}
	h.begin("Reverse", "C05", "C17")
	var ret at.List
	p, msg := h.call(func() { ret = n.list().Reverse() })
	h.touch(n)
	h.tracef("%s.Reverse()", n.Name)
	if !h.mustNotPanic(p, msg) {
		return
	}
	for i, j := 0, len(n.Elems)-1; i < j; i, j = i+1, j-1 {
		n.Elems[i], n.Elems[j] = n.Elems[j], n.Elems[i]
	}
	h.checkRet(ret, n)
	h.heapCheck()
}

// sortable reports whether n lies inside the domain C17 defines for Sort.
func sortable(n *Node) bool {
	if len(n.Elems) == 0 {
		return false
	}
	k := n.Elems[0].K
	if k != KString && k != KInt && k != KFloat {
		return false
	}
	for _, e := range n.Elems {
		if e.K != k {
			return false
		}
	}
	return true
}

func opSort(h *Hist) {
	var cands []*Node
	for _, n := range h.bound(false, false, false) {
		if sortable(n) {
			cands = append(cands, n)
		}
	}
	if len(cands) == 0 {
		return
	}
	n := cands[h.d.Draw("pick-sortable", len(cands))]
	if h.last != nil && h.last.Impl != nil && !h.last.IsObj && sortable(h.last) && h.d.Draw("pick-again", 2) == 0 {
		n = h.last
	}
	h.last = n
	h.begin("Sort", "C05", "C17")
	var ret at.List
	p, msg := h.call(func() { ret = n.list().Sort() })
	h.touch(n)
	h.tracef("%s.Sort()", n.Name)
	if !h.mustNotPanic(p, msg) {
		return
	}
	sort.SliceStable(n.Elems, func(i, j int) bool {
		a, b := n.Elems[i], n.Elems[j]
		switch a.K {
		case KString:
			return a.S < b.S
		case KInt:
			return a.I < b.I
		}
		return a.F < b.F
	})
	if n.Elems[0].K == KFloat {
		// the order among +0 and -0 is open: adopt it after checking order and multiset
		l := n.list()
		if l.Count() == len(n.Elems) {
			var zerosModel, zerosImpl [2]int
			okOrder := true
			for i := range n.Elems {
				f, isF := l.Get(i).(float64)
				if !isF {
					okOrder = false
					break
				}
				if n.Elems[i].F == 0 {
					zerosModel[b2i(signbit(n.Elems[i].F))]++
					if f == 0 {
						zerosImpl[b2i(signbit(f))]++
						n.Elems[i].F = f
					}
				}
			}
			if okOrder && zerosModel != zerosImpl {
				h.fail("result", "Sort", h.curOwner, "Sort changed the multiset of signed zeros")
				return
			}
		}
	}
	h.checkRet(ret, n)
	h.heapCheck()
}

func b2i(b bool) int {
	if b {
		return 1
	}
	return 0
}

// ---- list observers -----------------------------------------------------------------------------------

var getterKinds = []Kind{KObj, KList, KString, KBool, KInt, KFloat}

// opSandwich: an observer, then one to three mutations of the same container, then the same observer again (a search with
// the same needle; the mutations prefer the slot the needle was found in). Whatever an observer leaves behind inside the
// container — an index, a sorted listing, a summary, a memoised text — has to follow every kind of mutation. With
// independently drawn operations the exact order "read, write that slot, read the same thing" is rare, above all on the
// bigger containers where such state usually begins to exist.
// opSummaries: the homogeneity assertions and the integer aggregates of a list, against the model (what they say is a function
// of the elements alone; an implementation may keep a summary inside the list, which then has to follow every mutation and
// must not be shared with clones or derived lists).
func opSummaries(h *Hist) {
	n := h.pickList()
	if n == nil {
		return
	}
	// (what the assertions and sums say about given elements belongs to C14/C18, which are not simulation targets; here they are
	// observers of hidden state, and a wrong answer is reported only through the relation-based attribution of fail())
	h.begin("Summaries", "C18")
	var want [7]bool
	for i := range want {
		want[i] = true
	}
	sum, prod := 0, 1
	for _, v := range n.Elems {
		want[0] = want[0] && v.K == KObj
		want[1] = want[1] && v.K == KList
		want[2] = want[2] && v.K == KString
		want[3] = want[3] && v.K == KBool
		want[4] = want[4] && v.K == KInt
		want[5] = want[5] && v.K == KFloat
		want[6] = want[6] && (v.K == KInt || v.K == KFloat)
		if v.K == KInt {
			sum += v.I
			prod *= v.I
		}
	}
	names := []string{"AllObjects", "AllLists", "AllStrings", "AllBools", "AllInts", "AllFloats", "AllNumeric"}
	var got [7]bool
	var gotSum, gotProd int
	l := n.list()
	p, msg := h.call(func() {
		got = [7]bool{l.AllObjects(), l.AllLists(), l.AllStrings(), l.AllBools(), l.AllInts(), l.AllFloats(), l.AllNumeric()}
		gotSum, gotProd = l.IntSum(), l.IntProd()
	})
	h.tracef("%s summaries %v sum=%d panicked=%v", n.Name, got, gotSum, p)
	if !h.mustNotPanic(p, msg) {
		return
	}
	if got != want || gotSum != sum || gotProd != prod {
		// the same questions to a brand-new list with the same elements: right there and wrong here means that this list carries
		// something besides its elements
		var tg [7]bool
		var ts, tp int
		if p, _ := h.call(func() {
			tw := at.NewList()
			for _, v := range n.Elems {
				tw.Add(v.goValue())
			}
			tg = [7]bool{tw.AllObjects(), tw.AllLists(), tw.AllStrings(), tw.AllBools(), tw.AllInts(), tw.AllFloats(), tw.AllNumeric()}
			ts, tp = tw.IntSum(), tw.IntProd()
		}); !p && tg == want && ts == sum && tp == prod {
			h.twinOK = true
			defer func() { h.twinOK = false }()
		}
	}
	for i := range want {
		if got[i] != want[i] {
			h.fail("result", names[i], h.curOwner, fmt.Sprintf("%s.%s() = %v, the elements say %v: %s", n.Name, names[i], got[i], want[i], n.render(0)))
			return
		}
	}
	if gotSum != sum || gotProd != prod {
		h.fail("result", "IntSum", h.curOwner, fmt.Sprintf("%s.IntSum()/IntProd() = %d/%d, the elements say %d/%d", n.Name, gotSum, gotProd, sum, prod))
		return
	}
	h.heapCheck()
}

// replaceIntermediate swaps a container on a tree-form path for a new one of the same shape, through the container that holds
// it (not through the root): the path still resolves, but to other containers from that point on. What the root remembers
// about the path must not survive it. The slot the path continues through gets a fresh value (a derived structure when the
// history has them), every other slot keeps what the old container had.
func (h *Hist) replaceIntermediate(root *Node, path []seg) {
	lvl := 1 + h.d.Draw("replace-level", len(path)-1) // the container reached after lvl segments is replaced (lvl >= 1)
	holder := root
	for i := 0; i < lvl-1; i++ {
		v, ok := child(holder, path[i])
		if !ok || !v.isRef() {
			return
		}
		holder = v.N
	}
	oldV, ok := child(holder, path[lvl-1])
	if !ok || !oldV.isRef() || holder.Impl == nil || holder.Derived > 0 && !h.derivedOK {
		return
	}
	old := oldV.N
	h.begin("ReplaceIntermediate", h.ownerOf(holder)...)
	r := h.newNode(old.IsObj, "ReplaceIntermediate")
	fresh := func() (any, MVal) {
		if h.derivedOK && h.d.Draw("replace-derived", 2) == 0 {
			d := h.newNode(true, "NewDerived")
			d.Derived = 1
			d.Name = "DO" + strconv.Itoa(d.ID)
			o := NewDObject("fresh", r.ID)
			d.Fields["fresh"] = mInt(r.ID)
			h.bind(d, o)
			return o, mRef(d)
		}
		m := mString("replaced-" + strconv.Itoa(r.ID))
		return m.goValue(), m
	}
	var impl any
	if old.IsObj {
		o := at.NewObject()
		for _, k := range old.keys() {
			v := old.Fields[k]
			gv := v.goValue()
			if lvl < len(path) && !path[lvl].isIdx && path[lvl].key == k {
				gv, v = fresh()
			}
			o.Set(k, gv)
			r.Fields[k] = v
		}
		impl = o
	} else {
		l := at.NewList()
		for i, v := range old.Elems {
			gv := v.goValue()
			if lvl < len(path) && path[lvl].isIdx && path[lvl].idx == i {
				gv, v = fresh()
			}
			l.Add(gv)
			r.Elems = append(r.Elems, v)
		}
		impl = l
	}
	h.bind(r, impl)
	h.touch(holder)
	s := path[lvl-1]
	p, msg := h.call(func() {
		if s.isIdx {
			holder.list().Replace(s.idx, impl)
		} else {
			holder.object().Set(s.key, impl)
		}
	})
	h.tracef("%s: the container at %s replaced by %s through %s", root.Name, renderPath(path[:lvl]), r.Name, holder.Name)
	if !h.mustNotPanic(p, msg) {
		return
	}
	if s.isIdx {
		holder.Elems[s.idx] = mRef(r)
	} else {
		holder.Fields[s.key] = mRef(r)
	}
	h.aliased = true
	h.counters["probe:sandwich-intermediate-replaced"]++
	h.heapCheck()
}

// (filled by init: histOps itself refers to opSandwich)
var histOpsRef []histOp

func opSandwich(h *Hist) {
	n := h.pickAny()
	if n == nil || n.Impl == nil {
		return
	}
	has := func(name string) bool { return vocab[h.prop][name] > 0 }
	var observers, mutators []histOp
	deriving := map[string]bool{}
	for _, o := range histOpsRef {
		switch o.name {
		case "Summaries":
			if !n.IsObj {
				observers = append(observers, o)
			}
		case "Search", "Get", "TypeOf", "PureCalls", "Export", "GetTF", "ForEachVariants":
			if has(o.name) {
				observers = append(observers, o)
			}
		case "KeysValues", "Pluck", "Merge", "ObjMap":
			if has(o.name) && n.IsObj {
				observers = append(observers, o)
				deriving[o.name] = true
			}
		case "SubList", "Concat", "MapFilter":
			if has(o.name) && !n.IsObj {
				observers = append(observers, o)
				deriving[o.name] = true
			}
		case "Clone":
			if has(o.name) {
				observers = append(observers, o)
				deriving[o.name] = true
			}
		case "Add", "Insert", "Replace", "Delete", "Pop", "Reverse", "Sort":
			if has(o.name) && !n.IsObj {
				mutators = append(mutators, o)
			}
		case "Set", "Unset":
			if has(o.name) && n.IsObj {
				mutators = append(mutators, o)
			}
		case "Clear", "SetTF", "UnsetTF":
			if has(o.name) {
				mutators = append(mutators, o)
			}
		}
	}
	if len(observers) == 0 || len(mutators) == 0 {
		return
	}
	obs := observers[h.d.Draw("sandwich-observer", len(observers))]
	h.counters["probe:sandwich-"+obs.name]++
	h.force, h.hintIndex = n, -1
	defer func() { h.force, h.forceNeedle, h.hintIndex = nil, nil, -1 }()
	if obs.name == "Search" {
		var vals []MVal
		if n.IsObj {
			for _, k := range n.keys() {
				vals = append(vals, n.Fields[k])
			}
		} else {
			vals = n.Elems
		}
		if len(vals) > 0 {
			v := vals[h.d.Draw("sandwich-needle", len(vals))]
			h.forceNeedle = &v
			for i, x := range vals {
				if x.goEq(v) {
					h.hintIndex = i // its first occurrence: where an index or a cache would point
					break
				}
			}
		}
	}
	h.repeatPath = nil
	before := len(h.nodes)
	obs.f(h)
	target := n
	mode := h.d.Draw("sandwich-target", 4)
	switch {
	case mode == 0 && deriving[obs.name] && !h.dead:
		// the observer hands out a new container: observe once more (an unmodified second call is where memoised results
		// start to be served), modify what was handed out, and observe again
		obs.f(h)
		if len(h.nodes) > before && !h.dead {
			for i := len(h.nodes) - 1; i >= before; i-- {
				if r := h.nodes[i]; r.Impl != nil && r.Derived == 0 && (r.Op == obs.name || deriving[r.Op] || i == before) {
					target = r
					break
				}
			}
			h.counters["probe:sandwich-result-modified"]++
		}
	case mode == 1:
		// the mutation happens further down, in a container the observed one holds (a cache at the top does not see it)
		var below []*Node
		for _, x := range sortedNodes(reach(n)) {
			if x != n && x.Impl != nil {
				below = append(below, x)
			}
		}
		if len(below) > 0 {
			target = below[h.d.Draw("sandwich-below", len(below))]
			h.counters["probe:sandwich-nested-modified"]++
		}
	}
	if obs.name == "GetTF" && len(h.lastPath) >= 2 && h.d.Draw("sandwich-replace-intermediate", 2) == 0 && h.room() {
		h.replaceIntermediate(n, h.lastPath)
		h.force = n
		if !h.dead && n.Impl != nil {
			h.repeatPath = h.lastPath
			obs.f(h)
			h.repeatPath = nil
		}
		return
	}
	h.force = target
	if target != n {
		h.hintIndex = -1
	}
	var ms []histOp
	for _, m := range mutators {
		switch m.name {
		case "Add", "Insert", "Replace", "Delete", "Pop", "Reverse", "Sort":
			if !target.IsObj {
				ms = append(ms, m)
			}
		case "Set", "Unset":
			if target.IsObj {
				ms = append(ms, m)
			}
		default:
			ms = append(ms, m)
		}
	}
	if target.IsObj != n.IsObj {
		// (the mutator list was drawn up for the observed container's kind)
		for _, o := range histOpsRef {
			switch o.name {
			case "Add", "Insert", "Replace", "Delete", "Pop", "Reverse", "Sort":
				if has(o.name) && !target.IsObj {
					ms = append(ms, o)
				}
			case "Set", "Unset":
				if has(o.name) && target.IsObj {
					ms = append(ms, o)
				}
			}
		}
	}
	for i, k := 0, 1+h.d.Draw("sandwich-mutations", 3); len(ms) > 0 && i < k && !h.dead && target.Impl != nil; i++ {
		ms[h.d.Draw("sandwich-mutator", len(ms))].f(h)
	}
	h.force = n
	if !h.dead && n.Impl != nil {
		h.repeatPath = h.lastPath // a tree-form read takes the same path again where it still resolves
		obs.f(h)
		h.repeatPath = nil
	}
}

// opTimePasses lets simulated time go by between two operations (nothing in the properties depends on time: whatever the
// library keeps for a while — a cache with an expiry, a deferred clean-up — must not show). The heap is compared afterwards as
// after any other step.
func opTimePasses(h *Hist) {
	d := []time.Duration{time.Millisecond, 50 * time.Millisecond, time.Second, 61 * time.Second, time.Hour, 25 * time.Hour, 400 * 24 * time.Hour}[h.d.Draw("time-passes", 7)]
	h.begin("TimePasses", h.prop)
	h.tracef("%v pass", d)
	simrt.Sleep(d)
	h.counters["probe:time-passes"]++
	if len(h.recentTrees) > 0 && h.d.Draw("tree-touch", 3) == 0 {
		// the caller goes on using a Go value it passed to the library earlier (no container may notice: C13)
		switch x := h.recentTrees[h.d.Draw("tree-which", len(h.recentTrees))].(type) {
		case map[string]any:
			x["touched"] = len(x)
		case []any:
			if len(x) > 0 {
				x[0] = "touched"
			}
		}
		h.counters["probe:go-value-modified-after-use"]++
	}
	if h.d.Draw("collect-garbage", 4) == 0 {
		// two collections empty every sync.Pool (primary and victim cache) and make unreachable containers eligible for
		// finalizers; what the library recycles must not be something a live container still uses
		runtime.GC()
		runtime.GC()
		h.counters["probe:garbage-collected"]++
	}
	h.heapCheck()
}

func opGet(h *Hist) {
	n := h.pickAny()
	if n == nil {
		return
	}
	h.begin("Get", h.ownerOf(n)...)
	which := h.d.Draw("getter", 7) // 0 = untyped Get, 1.. typed
	var exists bool
	var mv MVal
	var where string
	var idx int
	var key string
	if n.IsObj {
		key = h.genKey(n)
		switch h.d.Draw("key-missing", 8) {
		case 0:
			key = "missing-key"
		case 1, 2:
			// an absent key that would resolve if it were (mis)read as a tree-form path or after normalisation
			if k := h.trickyMissingKey(n); k != "" {
				key = k
				h.counters["probe:absent-key-that-resolves-as-a-path"]++
			}
		}
		mv, exists = n.Fields[key]
		where = strconv.Quote(key)
	} else {
		idx = h.index(len(n.Elems))
		if h.d.Draw("idx-valid", 2) == 0 {
			idx = h.validIndex(len(n.Elems))
		}
		exists = idx >= 0 && idx < len(n.Elems)
		if exists {
			mv = n.Elems[idx]
		}
		where = strconv.Itoa(idx)
	}
	var got any
	name := "Get"
	p, msg := h.call(func() {
		if n.IsObj {
			o := n.object()
			switch which {
			case 0:
				got = o.Get(key)
			case 1:
				got = o.GetObject(key)
			case 2:
				got = o.GetList(key)
			case 3:
				got = o.GetString(key)
			case 4:
				got = o.GetBool(key)
			case 5:
				got = o.GetInt(key)
			case 6:
				got = o.GetFloat(key)
			}
		} else {
			l := n.list()
			switch which {
			case 0:
				got = l.Get(idx)
			case 1:
				got = l.GetObject(idx)
			case 2:
				got = l.GetList(idx)
			case 3:
				got = l.GetString(idx)
			case 4:
				got = l.GetBool(idx)
			case 5:
				got = l.GetInt(idx)
			case 6:
				got = l.GetFloat(idx)
			}
		}
	})
	if which > 0 {
		name = "Get" + [...]string{"", "Object", "List", "String", "Bool", "Int", "Float"}[which]
	}
	h.curOp = name
	valid := exists && (which == 0 || mv.K == getterKinds[which-1])
	h.tracef("%s.%s(%s) valid=%v panicked=%v", n.Name, name, where, valid, p)
	if !valid {
		h.counters["fault:getter-out-of-domain"]++
		if h.mustPanic(p, "missing slot or slot of another kind") {
			h.heapCheck()
		}
		return
	}
	if !h.mustNotPanic(p, msg) {
		return
	}
	typ := mv.K.atType()
	slot := mv
	if mm := h.checkSlot(n, "."+name+"("+where+")", typ, got, &slot); mm != nil {
		own := h.curOwner
		if mv.isRef() && mv.N.Derived > 0 {
			own = []string{"C19"}
		}
		h.fail("result", name, own, mm.msg)
		return
	}
	if mv.isRef() && mv.N.Derived > 0 {
		h.counters["probe:derived-retrieved-"+name]++
	}
	h.heapCheck()
}

func opTypeOf(h *Hist) {
	n := h.pickAny()
	if n == nil {
		return
	}
	h.begin("TypeOf", h.ownerOf(n)...)
	var got, want at.Type
	var where string
	p, msg := h.call(func() {
		if n.IsObj {
			key := h.genKey(n)
			where = strconv.Quote(key)
			if mv, ok := n.Fields[key]; ok {
				want = mv.K.atType()
			}
			got = n.object().TypeOf(key)
			if n.object().KeyExists(key) != (want != at.TypeUndefined) {
				got = 255
			}
		} else {
			i := h.index(len(n.Elems))
			where = strconv.Itoa(i)
			if i >= 0 && i < len(n.Elems) {
				want = n.Elems[i].K.atType()
			}
			got = n.list().TypeOf(i)
		}
	})
	h.tracef("%s.TypeOf(%s) = %d", n.Name, where, got)
	if !h.mustNotPanic(p, msg) {
		return
	}
	if got != want {
		h.fail("result", "TypeOf", h.curOwner, fmt.Sprintf("%s.TypeOf(%s) = %d, model says %d", n.Name, where, got, want))
		return
	}
	h.heapCheck()
}

// genSearch draws a value to look for: an element, a scalar, a bound container, or a fresh container
// that is structurally equal to nothing by identity.
func (h *Hist) genSearch(vals []MVal) (any, MVal, bool) {
	if v := h.forceNeedle; v != nil {
		return v.goValue(), *v, false
	}
	switch k := h.d.Draw("search-kind", 7); {
	case k == 6 && len(vals) > 0:
		// the closest other value of the same kind: the next float, the int one above
		v := vals[h.d.Draw("search-elem", len(vals))]
		switch v.K {
		case KFloat:
			if !math.IsInf(v.F, 0) {
				m := mFloat(math.Nextafter(v.F, math.Inf(1)))
				h.counters["probe:search-nearly-equal-float"]++
				return m.goValue(), m, false
			}
		case KInt:
			if v.I != math.MaxInt {
				m := mInt(v.I + 1)
				return m.goValue(), m, false
			}
		case KString:
			m := mString(v.S + " ")
			return m.goValue(), m, false
		}
		return v.goValue(), v, false
	case k <= 2 && len(vals) > 0:
		v := vals[h.d.Draw("search-elem", len(vals))]
		return v.goValue(), v, false
	case k == 3:
		if c := h.pickAny(); c != nil {
			return c.Impl, mRef(c), false
		}
	case k == 4:
		// structurally equal but distinct: containers compare by identity
		for _, v := range vals {
			if v.isRef() && v.N.Derived == 0 && !h.hasDerivedBelow(v.N) {
				h.counters["probe:search-equal-but-distinct"]++
				if v.N.IsObj {
					return v.N.object().Clone(), MVal{}, true
				}
				return v.N.list().Clone(), MVal{}, true
			}
		}
		return at.NewList(), MVal{}, true
	}
	m := h.genScalarM()
	return m.goValue(), m, false
}

func opSearch(h *Hist) {
	n := h.pickAny()
	if n == nil {
		return
	}
	var vals []MVal
	var keys []string
	if n.IsObj {
		keys = n.keys()
		for _, k := range keys {
			vals = append(vals, n.Fields[k])
		}
	} else {
		vals = n.Elems
	}
	which := h.d.Draw("search-op", 2)
	name := [...]string{"Contains", "IndexOf"}[which]
	if n.IsObj && which == 1 {
		name = "KeyOf"
	}
	h.begin(name, append(h.ownerOf(n), "C09")...)
	h.curOwner = h.ownerOf(n)
	gv, mv, foreign := h.genSearch(vals)
	h.obsArg = short(canon(gv, nil), 60)
	first := -1
	for i, v := range vals {
		if !foreign && v.goEq(mv) {
			first = i
			break
		}
	}
	var gotB bool
	var gotI int
	var gotK string
	p, msg := h.call(func() {
		switch name {
		case "Contains":
			if n.IsObj {
				gotB = n.object().Contains(gv)
			} else {
				gotB = n.list().Contains(gv)
			}
		case "IndexOf":
			gotI = n.list().IndexOf(gv)
		case "KeyOf":
			gotK = n.object().KeyOf(gv)
		}
	})
	h.tracef("%s.%s(%s) found-at=%d panicked=%v", n.Name, name, short(canon(gv, nil), 40), first, p)
	switch name {
	case "Contains":
		if h.mustNotPanic(p, msg) && gotB != (first >= 0) {
			h.fail("result", name, h.curOwner, fmt.Sprintf("%s.Contains(%s) = %v, model says %v", n.Name, showGo(gv), gotB, first >= 0))
		}
	case "IndexOf":
		if h.mustNotPanic(p, msg) && gotI != first {
			h.fail("result", name, h.curOwner, fmt.Sprintf("%s.IndexOf(%s) = %d, model says %d", n.Name, showGo(gv), gotI, first))
		}
	case "KeyOf":
		if first < 0 {
			h.counters["fault:value-absent"]++
			h.mustPanic(p, "value not present")
		} else if h.mustNotPanic(p, msg) {
			v, ok := n.Fields[gotK]
			if !ok || !v.goEq(mv) {
				h.fail("result", name, h.curOwner, fmt.Sprintf("%s.KeyOf(%s) = %q, which does not hold that value", n.Name, showGo(gv), gotK))
			}
		}
	}
	h.heapCheck()
}

// ---- list deriving operations ---------------------------------------------------------------------------

// derive registers result r as derived from the sources by op.
func (h *Hist) derive(r *Node, op string, srcs ...*Node) {
	h.aliased = true
	for _, s := range srcs {
		// another result of the same source
		for _, x := range h.nodes {
			if x == r || x == s {
				continue
			}
			if rel, ok := h.rel[[2]int{x.ID, s.ID}]; ok && strings.HasPrefix(rel, "derived") {
				h.relate(r.ID, x.ID, "derived:"+op)
				h.counters["probe:two-results-one-source"]++
			}
		}
		for _, nv := range h.natives {
			if rel, ok := h.rel[[2]int{-nv.ID - 1, s.ID}]; ok && strings.HasPrefix(rel, "native") {
				h.relate(r.ID, -nv.ID-1, rel)
			}
		}
		h.relate(r.ID, s.ID, "derived:"+op)
	}
}

func opSubList(h *Hist) {
	n := h.pickList()
	if n == nil || !h.room() || !h.plain(n) {
		return
	}
	h.begin("SubList", "C05", "C09")
	cnt := len(n.Elems)
	start := h.d.Draw("sub-start", cnt+2)
	end := h.d.Draw("sub-end", 2*cnt+3) - cnt - 1
	if !h.faults() && h.d.Draw("sub-valid", 4) > 0 {
		// mostly valid ranges
		if cnt > 0 {
			start = h.d.Draw("sub-start", cnt)
			end = start + h.d.Draw("sub-len", cnt-start+1)
			if end == 0 {
				end = start - cnt // same position written with the end<=0 rule
				if end > 0 {
					end = 0
				}
			}
		}
	}
	valid := end <= cnt && end >= -cnt
	e := end
	if e <= 0 {
		e = cnt + e
	}
	valid = valid && start >= 0 && start <= e
	var l at.List
	p, msg := h.call(func() { l = n.list().SubList(start, end) })
	h.tracef("%s.SubList(%d, %d) valid=%v panicked=%v", n.Name, start, end, valid, p)
	if !valid {
		h.counters["fault:range-out-of-domain"]++
		if h.mustPanic(p, fmt.Sprintf("range (%d,%d) outside the documented domain for count %d", start, end, cnt)) {
			h.heapCheck()
		}
		return
	}
	if !h.mustNotPanic(p, msg) {
		return
	}
	r := h.newNode(false, "SubList")
	r.Pend = &pending{mode: pendFresh, group: h.group}
	r.Elems = append([]MVal(nil), n.Elems[start:e]...)
	if !h.bindResult(r, l, []string{"C05"}) {
		return
	}
	h.derive(r, "SubList", n)
	h.trace[len(h.trace)-1] += " -> " + r.Name
	h.heapCheck()
}

func opConcat(h *Hist) {
	n, m := h.pickList(), h.pickList()
	if n == nil || !h.room() || !h.plain(n) || !h.plain(m) || len(n.Elems)+len(m.Elems) > h.maxSlots {
		return
	}
	h.begin("Concat", "C05", "C09")
	var l at.List
	p, msg := h.call(func() { l = n.list().Concat(m.list()) })
	h.tracef("%s.Concat(%s)", n.Name, m.Name)
	if !h.mustNotPanic(p, msg) {
		return
	}
	r := h.newNode(false, "Concat")
	r.Pend = &pending{mode: pendFresh, group: h.group}
	r.Elems = append(append([]MVal(nil), n.Elems...), m.Elems...)
	if !h.bindResult(r, l, []string{"C05"}) {
		return
	}
	h.derive(r, "Concat", n, m)
	h.trace[len(h.trace)-1] += " -> " + r.Name
	h.heapCheck()
}

// pure callbacks used by Map*/Filter*: the result depends on the slot and the value.
func mapFn(fn int, slot string, v MVal) MVal {
	switch fn {
	case 0:
		return v
	case 1:
		return mString("k:" + slot + ":" + v.K.String())
	case 2:
		return mInt(len(slot) * 7)
	}
	if v.isRef() {
		return v
	}
	return mFloat(float64(len(slot)) + 0.5)
}

func keepFn(fn int, ord int, v MVal) bool {
	switch fn {
	case 0:
		return true
	case 1:
		return false
	case 2:
		return ord%2 == 0
	}
	if fn >= keepFirst {
		// the first fn-keepFirst candidates: results of an exact size (a buffer that is exactly full, a batch boundary)
		return ord < fn-keepFirst
	}
	return v.K == KInt || v.K == KString || v.isRef()
}

const keepFirst = 1000

// exact result sizes for keepFn's "the first k" predicate: powers of two and their neighbours
var keepSizes = []int{1, 2, 7, 8, 9, 15, 16, 17, 31, 32, 33, 63, 64, 65, 127, 128, 129, 255, 256, 257, 511, 512, 513, 1024}

var typedKinds = []Kind{KObj, KList, KString, KBool, KInt, KFloat}
var typedNames = []string{"Objects", "Lists", "Strings", "Bools", "Ints", "Floats"}

// opMapFilter covers Map, MapValues, the typed Map*, Filter and the typed Filter* on lists, and MapAsync.
func opMapFilter(h *Hist) {
	n := h.pickList()
	if n == nil || !h.room() || !h.plain(n) {
		return
	}
	fn := h.d.Draw("fn", 4)
	variant := h.d.Draw("mf-variant", 17)
	if h.chain > 0 {
		variant = 8 + h.d.Draw("mf-filter-variant", 6)
	}
	if variant >= 8 && variant <= 13 && h.d.Draw("keep-first-k", 3) == 0 {
		// prefer the sizes the receiver can deliver
		k := keepSizes[h.d.Draw("keep-first-size", len(keepSizes))]
		for k > len(n.Elems) && k > 1 && h.d.Draw("keep-first-shrink", 4) != 0 {
			k /= 2
		}
		fn = keepFirst + k
	}
	// 0 Map, 1 MapValues, 2..7 typed Map, 8 Filter, 9..13 typed Filter (no FilterBools in the API), 14 MapAsync, 15/16 Map
	name := "Map"
	tk := Kind(255)
	isFilter := false
	switch {
	case variant == 1:
		name = "MapValues"
	case variant >= 2 && variant <= 7:
		tk = typedKinds[variant-2]
		name = "Map" + typedNames[variant-2]
	case variant == 8:
		name, isFilter = "Filter", true
	case variant >= 9 && variant <= 13:
		i := []int{0, 1, 2, 4, 5}[variant-9]
		tk = typedKinds[i]
		name, isFilter = "Filter"+typedNames[i], true
	case variant == 14 && len(n.Elems) <= 3000:
		// (one simulated goroutine per element: tens of thousands make a single history take minutes; C15's own engine covers those sizes)
		name = "MapAsync"
	}
	h.begin(name, "C14", "C09")
	h.curOwner = []string{"C14"}
	if name == "MapAsync" {
		h.curOwner = []string{"C15"}
	}
	// model
	r := h.newNode(false, name)
	r.Pend = &pending{mode: pendFresh, group: h.group}
	ord := 0
	for i, v := range n.Elems {
		if tk != 255 && v.K != tk {
			continue
		}
		slot := strconv.Itoa(i)
		if name != "Map" && name != "MapAsync" {
			slot = "v"
		}
		if isFilter {
			if keepFn(fn, ord, v) {
				r.Elems = append(r.Elems, v)
			}
		} else {
			r.Elems = append(r.Elems, mapFn(fn, slot, v))
		}
		ord++
	}
	// implementation
	conv := func(v any) MVal { return h.mvOfGo(v) }
	k := 0
	mf := func(slot string, v any) any {
		simrt.Yield()
		m := conv(v)
		if m.K == 255 {
			return "unknown-container"
		}
		return mapFn(fn, slot, m).goValue()
	}
	ff := func(v any) bool { simrt.Yield(); k++; return keepFn(fn, k-1, conv(v)) }
	var l at.List
	if ord == 0 && name != "MapAsync" && h.d.Draw("nil-callback", 3) == 0 {
		// nothing will be visited: a nil callback is never invoked, the call is as valid as with any other function
		h.counters["probe:nil-callback-never-invoked"]++
		p, msg := h.call(func() {
			ls := n.list()
			switch name {
			case "Map":
				l = ls.Map(nil)
			case "MapValues":
				l = ls.MapValues(nil)
			case "MapObjects":
				l = ls.MapObjects(nil)
			case "MapLists":
				l = ls.MapLists(nil)
			case "MapStrings":
				l = ls.MapStrings(nil)
			case "MapBools":
				l = ls.MapBools(nil)
			case "MapInts":
				l = ls.MapInts(nil)
			case "MapFloats":
				l = ls.MapFloats(nil)
			case "Filter":
				l = ls.Filter(nil)
			case "FilterObjects":
				l = ls.FilterObjects(nil)
			case "FilterLists":
				l = ls.FilterLists(nil)
			case "FilterStrings":
				l = ls.FilterStrings(nil)
			case "FilterInts":
				l = ls.FilterInts(nil)
			case "FilterFloats":
				l = ls.FilterFloats(nil)
			}
		})
		h.tracef("%s.%s(nil callback, nothing to visit)", n.Name, name)
		if !h.mustNotPanic(p, msg) {
			return
		}
		if !h.bindResult(r, l, h.curOwner) {
			return
		}
		h.derive(r, name, n)
		h.heapCheck()
		return
	}
	p, msg := h.call(func() {
		ls := n.list()
		switch name {
		case "Map":
			l = ls.Map(func(i int, v any) any { return mf(strconv.Itoa(i), v) })
		case "MapAsync":
			l = ls.MapAsync(func(i int, v any) any { return mf(strconv.Itoa(i), v) })
		case "MapValues":
			l = ls.MapValues(func(v any) any { return mf("v", v) })
		case "MapObjects":
			l = ls.MapObjects(func(v at.Object) any { return mf("v", v) })
		case "MapLists":
			l = ls.MapLists(func(v at.List) any { return mf("v", v) })
		case "MapStrings":
			l = ls.MapStrings(func(v string) any { return mf("v", v) })
		case "MapBools":
			l = ls.MapBools(func(v bool) any { return mf("v", v) })
		case "MapInts":
			l = ls.MapInts(func(v int) any { return mf("v", v) })
		case "MapFloats":
			l = ls.MapFloats(func(v float64) any { return mf("v", v) })
		case "Filter":
			l = ls.Filter(func(v any) bool { return ff(v) })
		case "FilterObjects":
			l = ls.FilterObjects(func(v at.Object) bool { return ff(v) })
		case "FilterLists":
			l = ls.FilterLists(func(v at.List) bool { return ff(v) })
		case "FilterStrings":
			l = ls.FilterStrings(func(v string) bool { return ff(v) })
		case "FilterInts":
			l = ls.FilterInts(func(v int) bool { return ff(v) })
		case "FilterFloats":
			l = ls.FilterFloats(func(v float64) bool { return ff(v) })
		}
	})
	h.tracef("%s.%s(fn%d)", n.Name, name, fn)
	if !h.mustNotPanic(p, msg) {
		return
	}
	own := h.curOwner
	for _, e := range r.Elems {
		if e.isRef() && e.N.Derived > 0 && isFilter {
			own = []string{"C19"}
			h.counters["probe:derived-retrieved-"+name]++
		}
	}
	if !h.bindResult(r, l, own) {
		return
	}
	if isFilter && len(r.Elems) == len(n.Elems) && len(n.Elems) > 0 {
		h.counters["probe:filter-keeps-everything"]++
	}
	h.derive(r, name, n)
	h.trace[len(h.trace)-1] += " -> " + r.Name
	h.heapCheck()
	if isFilter && !h.dead && h.chain == 0 && h.d.Draw("filter-again", 2) == 0 {
		// a second Filter* right behind the first, on any list: what the first result holds must not be scratch space of the next call
		h.chain++
		opMapFilter(h)
		h.chain--
	}
}

// mvOfGo converts a value handed to a callback back into the model value (containers through the binder).
func (h *Hist) mvOfGo(v any) MVal {
	switch x := v.(type) {
	case nil:
		return mNil()
	case bool:
		return mBool(x)
	case int:
		return mInt(x)
	case float64:
		return mFloat(x)
	case string:
		return mString(x)
	case at.List, at.Object:
		if k := h.byPtr[ptrOf(x)]; k != nil {
			return mRef(k)
		}
	}
	return MVal{K: 255}
}

// opPureCalls: operations that produce a plain Go value; the statement owned here is only that
// nothing changes (C09). Their results are judged by properties that are not claimed.
func opPureCalls(h *Hist) {
	n := h.pickAny()
	if n == nil {
		return
	}
	which := h.d.Draw("pure-op", 8)
	names := []string{"String", "FormatString", "Equals", "Reduce", "ReduceStrings", "ReduceInts", "ReduceFloats", "ForEach"}
	name := names[which]
	h.begin(name, "C09")
	var other *Node
	if n.IsObj {
		other = h.pickObj()
	} else {
		other = h.pickList()
	}
	var ret any
	var text string
	kept := false
	p, _ := h.call(func() {
		if n.IsObj {
			o := n.object()
			switch name {
			case "String":
				text, kept = o.String(), true
			case "FormatString":
				text, kept = o.FormatString(h.d.Draw("indent", 11)), true
			case "Equals":
				if h.plain(other) && h.plain(n) {
					_ = o.Equals(other.object())
				}
			default:
				name = "ForEach"
				h.curOp = name
				ret = o.ForEach(func(k string, v any) { simrt.Yield() })
			}
			return
		}
		l := n.list()
		switch name {
		case "String":
			text, kept = l.String(), true
		case "FormatString":
			text, kept = l.FormatString(h.d.Draw("indent", 11)), true
		case "Equals":
			if h.plain(other) && h.plain(n) {
				_ = l.Equals(other.list())
			}
		case "Reduce":
			_ = l.Reduce(0, func(acc, v any) any { return acc.(int) + 1 })
		case "ReduceStrings":
			_ = l.ReduceStrings("", func(acc, v string) string { return acc + v })
		case "ReduceInts":
			_ = l.ReduceInts(0, func(acc, v int) int { return acc ^ v })
		case "ReduceFloats":
			_ = l.ReduceFloats(0, func(acc, v float64) float64 { return acc + v })
		case "ForEach":
			ret = l.ForEach(func(i int, v any) { simrt.Yield() })
		}
	})
	h.tracef("%s.%s() panicked=%v", n.Name, name, p)
	if kept && !p && len(h.natives) < 16 {
		// the returned text is a plain Go value that must stay what it was (a result owns its storage)
		nv := h.newNative(text, string(append([]byte(nil), text...)), name, false)
		h.relate(-nv.ID-1, n.ID, "native:"+name)
		h.counters["probe:text-kept-as-heap-citizen"]++
	}
	if name == "ForEach" && !p {
		h.curOwner = h.ownerOf(n)
		h.checkRet(ret, n)
	}
	h.heapCheck()
}

// opForEachVariants: every ForEach variant returns the receiver (C19 for derived values) and hands out
// the identical stored containers (typed iteration).
func opForEachVariants(h *Hist) {
	n := h.pickAny()
	if n == nil {
		return
	}
	which := h.d.Draw("foreach-variant", 10)
	if which >= 8 && len(n.Elems)+len(n.Fields) > 3000 {
		which = 0 // (see MapAsync: one simulated goroutine per element)
	}
	names := []string{"ForEach", "ForEachValue", "ForEachObject", "ForEachList", "ForEachString", "ForEachBool", "ForEachInt", "ForEachFloat", "ForEachAsync", "ForEachAsync"}
	name := names[which]
	h.begin(name, "C14")
	var seen []any
	var ret any
	rec := func(v any) { simrt.Yield(); seen = append(seen, v) }
	var mu simrt.Mutex
	recAsync := func(v any) { simrt.Yield(); mu.Lock(); seen = append(seen, v); mu.Unlock() }
	p, msg := h.call(func() {
		if n.IsObj {
			o := n.object()
			switch name {
			case "ForEach":
				ret = o.ForEach(func(k string, v any) { rec(v) })
			case "ForEachValue":
				ret = o.ForEachValue(func(v any) { rec(v) })
			case "ForEachObject":
				ret = o.ForEachObject(func(v at.Object) { rec(v) })
			case "ForEachList":
				ret = o.ForEachList(func(v at.List) { rec(v) })
			case "ForEachString":
				ret = o.ForEachString(func(v string) { rec(v) })
			case "ForEachBool":
				ret = o.ForEachBool(func(v bool) { rec(v) })
			case "ForEachInt":
				ret = o.ForEachInt(func(v int) { rec(v) })
			case "ForEachFloat":
				ret = o.ForEachFloat(func(v float64) { rec(v) })
			case "ForEachAsync":
				ret = o.ForEachAsync(func(k string, v any) { recAsync(v) })
			}
			return
		}
		l := n.list()
		switch name {
		case "ForEach":
			ret = l.ForEach(func(i int, v any) { rec(v) })
		case "ForEachValue":
			ret = l.ForEachValue(func(v any) { rec(v) })
		case "ForEachObject":
			ret = l.ForEachObject(func(v at.Object) { rec(v) })
		case "ForEachList":
			ret = l.ForEachList(func(v at.List) { rec(v) })
		case "ForEachString":
			ret = l.ForEachString(func(v string) { rec(v) })
		case "ForEachBool":
			ret = l.ForEachBool(func(v bool) { rec(v) })
		case "ForEachInt":
			ret = l.ForEachInt(func(v int) { rec(v) })
		case "ForEachFloat":
			ret = l.ForEachFloat(func(v float64) { rec(v) })
		case "ForEachAsync":
			ret = l.ForEachAsync(func(i int, v any) { recAsync(v) })
		}
	})
	h.tracef("%s.%s() visited %d", n.Name, name, len(seen))
	if !h.mustNotPanic(p, msg) {
		return
	}
	h.curOwner = h.ownerOf(n)
	h.checkRet(ret, n)
	// iteration hands the callback the identical stored containers (derived values included)
	if name == "ForEachObject" || name == "ForEachList" || name == "ForEach" || name == "ForEachValue" || name == "ForEachAsync" {
		want := map[uintptr]int{}
		var vals []MVal
		if n.IsObj {
			for _, k := range n.keys() {
				vals = append(vals, n.Fields[k])
			}
		} else {
			vals = n.Elems
		}
		derived := false
		untyped := name == "ForEach" || name == "ForEachValue" || name == "ForEachAsync"
		for _, v := range vals {
			if (name == "ForEachObject" && v.K == KObj) || (name == "ForEachList" && v.K == KList) || (untyped && v.isRef()) {
				want[ptrOf(v.N.Impl)]++
				if v.N.Derived > 0 {
					derived = true
				}
			}
		}
		for _, s := range seen {
			if p := ptrOf(s); p != 0 {
				want[p]--
			}
		}
		for _, c := range want {
			if c != 0 {
				own := []string{"C14"}
				if name == "ForEachAsync" {
					own = []string{"C15"}
				}
				if derived {
					own = []string{"C19"}
				}
				h.fail("result", name, own, fmt.Sprintf("%s.%s did not hand out exactly the stored containers (by identity)", n.Name, name))
				break
			}
		}
		if derived {
			h.counters["probe:derived-retrieved-"+name]++
		}
	}
	h.heapCheck()
}

// ---- object operations -----------------------------------------------------------------------------------

func opSet(h *Hist) {
	n := h.pickObj()
	if n == nil {
		return
	}
	h.begin("Set", "C06")
	o := n.object()
	k := 1 + h.tail("n-pairs", 3, 12)
	if len(n.Fields)+k > h.maxSlots+16 {
		k = 1
	}
	if h.d.Draw("set-empty", 10) == 0 {
		k = 0 // Set() with no pair
		h.counters["probe:zero-argument-call"]++
	}
	fault := 0 // 1 odd arity, 2 non-string key, 3 rejected value
	faultAt := -1
	if h.faults() && h.d.Draw("fault-set", 8) == 0 {
		fault = 1 + h.d.Draw("set-fault-kind", 3)
		faultAt = h.d.Draw("fault-at", k)
		if k == 0 {
			fault = 0
		}
	}
	type pair struct {
		key string
		mv  MVal
	}
	var args []any
	var pairs []pair
	var desc []string
	for i := 0; i < k; i++ {
		key := h.genKey(n)
		if i > 0 && h.d.Draw("dup-key", 4) == 0 {
			key = pairs[0].key
			h.counters["probe:duplicate-key-in-one-Set"]++
		}
		gv, mv := h.genVal(n, k == 1 && fault == 0)
		if i == faultAt {
			switch fault {
			case 2:
				// values that are clearly not strings (a named string type is left out: whether it counts as a string key is not stated)
				// (… but values that merely know a textual form of themselves are not strings: Stringers, errors, text marshalers, the library's own containers)
				bads := []any{42, []byte(key), 'x', nil, &key, 1.5, true, []string{key}, struct{ s string }{key}, int64(7),
					stringerKey{key}, &stringerKey{key}, time.Duration(5), errors.New(key), textKey{key}, []rune(key), at.NewList(key), at.NewObject(), [1]string{key}, uint8(65)}
				bad := bads[h.d.Draw("bad-key", len(bads))]
				args = append(args, bad, gv)
				desc = append(desc, fmt.Sprintf("%T(non-string key)", bad))
				continue
			case 3:
				args = append(args, key, rejectedValue(h.d))
				desc = append(desc, strconv.Quote(key)+":<rejected>")
				continue
			}
		}
		args = append(args, key, gv)
		pairs = append(pairs, pair{key, mv})
		desc = append(desc, strconv.Quote(key)+":"+mv.String())
	}
	if fault == 1 {
		args = args[:len(args)-1]
		faultAt = k - 1
	}
	var ret at.Object
	p, msg := h.call(func() { ret = o.Set(args...) })
	h.touch(n)
	h.tracef("%s.Set(%s) fault=%d panicked=%v", n.Name, strings.Join(desc, ", "), fault, p)
	if fault != 0 {
		h.counters["fault:"+[...]string{"", "odd-arity", "non-string-key", "rejected-value"}[fault]]++
		if fault != 3 && !h.mustPanic(p, "odd argument count or non-string key") {
			return
		}
		if fault == 3 && !p {
			h.adopt(n)
			return
		}
		// the pairs before the faulty one may have been applied (a prefix), nothing else
		okPrefix := -1
		limit := faultAt
		if limit > len(pairs) {
			limit = len(pairs)
		}
		saved := n.Fields
		for j := 0; j <= limit && okPrefix < 0; j++ {
			trial := map[string]MVal{}
			for kk, vv := range saved {
				trial[kk] = vv
			}
			for _, pr := range pairs[:j] {
				trial[pr.key] = pr.mv
			}
			n.Fields = trial
			if h.checkNode(n) == nil {
				okPrefix = j
			}
		}
		if okPrefix < 0 {
			n.Fields = saved
			h.fail("atomicity", "Set", h.curOwner, fmt.Sprintf("%s.Set panicked and left the object in a state that is not 'a prefix of the pairs applied': %s", n.Name, short(canon(o, nil), 200)))
			return
		}
		h.heapCheck()
		return
	}
	if !h.mustNotPanic(p, msg) {
		return
	}
	for _, pr := range pairs {
		n.Fields[pr.key] = pr.mv
	}
	h.checkRet(ret, n)
	h.heapCheck()
}

func opUnset(h *Hist) {
	n := h.pickObj()
	if n == nil {
		return
	}
	h.begin("Unset", "C06")
	k := h.tail("n-keys", 4, 10)
	var keys []string
	for i := 0; i < k; i++ {
		if len(n.Fields) > 0 && h.d.Draw("unset-present", 3) > 0 {
			ks := n.keys()
			keys = append(keys, ks[h.d.Draw("key-which", len(ks))])
		} else {
			keys = append(keys, keyPool[h.d.Draw("key", len(keyPool))])
			h.counters["probe:unset-missing-key"]++
		}
	}
	var ret at.Object
	p, msg := h.call(func() { ret = n.object().Unset(keys...) })
	h.touch(n)
	h.tracef("%s.Unset(%q)", n.Name, keys)
	if !h.mustNotPanic(p, msg) {
		return
	}
	for _, k := range keys {
		delete(n.Fields, k)
	}
	h.checkRet(ret, n)
	h.heapCheck()
}

// either makes the model value a derived object holds for v: the identical nested container or a fresh equal one.
func (h *Hist) either(v MVal, op string) MVal {
	if !v.isRef() {
		return v
	}
	p := h.newPending(v.N.IsObj, op, pendEither, v.N)
	h.cloneShape(p, v.N, pendEither)
	return mRef(p)
}

func opMerge(h *Hist) {
	n, m := h.pickObj(), h.pickObj()
	if n == nil || !h.room() || !h.plain(n) || !h.plain(m) || h.hasDerivedBelow(n) || len(n.Fields)+len(m.Fields) > h.maxSlots {
		return
	}
	h.begin("Merge", "C06", "C09")
	var o at.Object
	p, msg := h.call(func() { o = n.object().Merge(m.object()) })
	h.tracef("%s.Merge(%s)", n.Name, m.Name)
	if !h.mustNotPanic(p, msg) {
		return
	}
	r := h.newNode(true, "Merge")
	r.Pend = &pending{mode: pendFresh, group: h.group}
	shared := false
	for _, k := range n.keys() {
		if _, ok := m.Fields[k]; ok {
			shared = true
			continue
		}
		r.Fields[k] = h.either(n.Fields[k], "Merge")
	}
	for _, k := range m.keys() {
		r.Fields[k] = h.either(m.Fields[k], "Merge")
	}
	if shared {
		h.counters["probe:merge-shared-key"]++
	}
	if !h.bindResult(r, o, []string{"C06"}) {
		return
	}
	h.derive(r, "Merge", n, m)
	if below := reach(r); len(below) <= 512 {
		// (every derive call walks the whole heap: on the many-containers size class this loop alone took 85 s for one Merge)
		for x := range below {
			if x != r && x.Group == h.group {
				h.derive(x, "Merge", n, m)
			}
		}
	}
	h.trace[len(h.trace)-1] += " -> " + r.Name
	h.heapCheck()
}

func opPluck(h *Hist) {
	n := h.pickObj()
	if n == nil || !h.room() || !h.plain(n) {
		return
	}
	h.begin("Pluck", "C06", "C09")
	k := h.tail("n-keys", 4, 10)
	var keys []string
	valid := true
	for i := 0; i < k; i++ {
		if len(n.Fields) > 0 && h.d.Draw("pluck-present", 6) > 0 {
			ks := n.keys()
			keys = append(keys, ks[h.d.Draw("key-which", len(ks))])
		} else {
			k := "missing-key"
			if t := h.trickyMissingKey(n); t != "" && h.d.Draw("pluck-tricky", 2) == 0 {
				k = t
			}
			keys = append(keys, k)
			valid = false
		}
	}
	var o at.Object
	passed := append([]string(nil), keys...)
	p, msg := h.call(func() { o = n.object().Pluck(passed...) })
	for i := range keys {
		if passed[i] != keys[i] {
			h.fail("argument-changed", "Pluck", []string{"C09"}, fmt.Sprintf("%s.Pluck(%q) modified the slice of keys it was given: now %q", n.Name, keys, passed))
			return
		}
	}
	h.tracef("%s.Pluck(%q) valid=%v panicked=%v", n.Name, keys, valid, p)
	if !valid {
		h.counters["fault:key-absent"]++
		h.curOwner = []string{"C06"}
		if h.mustPanic(p, "a requested key is absent") {
			h.heapCheck()
		}
		return
	}
	if !h.mustNotPanic(p, msg) {
		return
	}
	r := h.newNode(true, "Pluck")
	r.Pend = &pending{mode: pendFresh, group: h.group}
	for _, key := range keys {
		if _, done := r.Fields[key]; !done {
			r.Fields[key] = h.either(n.Fields[key], "Pluck")
		}
	}
	if !h.bindResult(r, o, []string{"C06"}) {
		return
	}
	h.derive(r, "Pluck", n)
	h.trace[len(h.trace)-1] += " -> " + r.Name
	h.heapCheck()
}

// opKeysValues: Keys / Values produce a new list describing the same field set; the order is open.
func opKeysValues(h *Hist) {
	n := h.pickObj()
	if n == nil || !h.room() {
		return
	}
	name := [...]string{"Keys", "Values"}[h.d.Draw("kv", 2)]
	h.begin(name, "C06", "C09")
	var l at.List
	p, msg := h.call(func() {
		if name == "Keys" {
			l = n.object().Keys()
		} else {
			l = n.object().Values()
		}
	})
	h.tracef("%s.%s()", n.Name, name)
	if !h.mustNotPanic(p, msg) {
		return
	}
	if l == nil {
		h.fail("result", name, []string{"C06"}, name+" returned nil")
		return
	}
	if k := h.byPtr[ptrOf(l)]; k != nil {
		// not a new list (C09); if in addition it no longer describes the field set, C06 is broken as well
		own := []string{"C09"}
		if l.Count() != len(n.Fields) {
			own = []string{"C09", "C06"}
		} else {
			seen := map[string]int{}
			for i := 0; i < l.Count(); i++ {
				seen[canon(l.Get(i), nil)]++
			}
			for _, key := range n.keys() {
				if name == "Keys" {
					seen[canon(key, nil)]--
				} else {
					seen[canon(n.Fields[key].goValue(), nil)]--
				}
			}
			for _, c := range seen {
				if c != 0 {
					own = []string{"C09", "C06"}
				}
			}
		}
		h.fail("result-not-fresh", name, own, fmt.Sprintf("%s returned the existing container %s (%s) instead of a new list", name, k.Name, short(canon(l, nil), 100)))
		return
	}
	r := h.newNode(false, name)
	h.bind(r, l)
	var want []MVal
	for _, k := range n.keys() {
		if name == "Keys" {
			want = append(want, mString(k))
		} else {
			want = append(want, n.Fields[k])
		}
	}
	cnt := l.Count()
	if cnt != len(want) {
		h.fail("result", name, []string{"C06"}, fmt.Sprintf("%s.%s() has %d elements, the object has %d fields", n.Name, name, cnt, len(want)))
		return
	}
	used := make([]bool, len(want))
	derived := false
	for i := 0; i < cnt; i++ {
		got := h.mvOfGo(l.Get(i))
		found := false
		for j, w := range want {
			if !used[j] && w.same(got) {
				used[j], found = true, true
				if w.isRef() && w.N.Derived > 0 {
					derived = true
				}
				break
			}
		}
		if !found {
			own := []string{"C06"}
			for _, w := range want {
				if w.isRef() && w.N.Derived > 0 {
					own = []string{"C19"}
				}
			}
			h.fail("result", name, own, fmt.Sprintf("%s.%s()[%d] = %s is not a field of the object (fields %s)", n.Name, name, i, showGo(l.Get(i)), n.render(1)))
			return
		}
		r.Elems = append(r.Elems, got)
	}
	if derived {
		h.counters["probe:derived-retrieved-"+name]++
	}
	h.derive(r, name, n)
	h.trace[len(h.trace)-1] += " -> " + r.Name
	h.heapCheck()
}

func opObjMap(h *Hist) {
	n := h.pickObj()
	if n == nil || !h.room() || !h.plain(n) {
		return
	}
	fn := h.d.Draw("fn", 4)
	variant := h.d.Draw("omap-variant", 10)
	name := "Map"
	tk := Kind(255)
	switch {
	case variant == 1:
		name = "MapValues"
	case variant >= 2 && variant <= 7:
		tk = typedKinds[variant-2]
		name = "Map" + typedNames[variant-2]
	case variant == 8 && len(n.Fields) <= 3000:
		name = "MapAsync"
	}
	h.begin(name, "C14", "C09")
	h.curOwner = []string{"C14"}
	if name == "MapAsync" {
		h.curOwner = []string{"C15"}
	}
	r := h.newNode(true, name)
	r.Pend = &pending{mode: pendFresh, group: h.group}
	for _, k := range n.keys() {
		v := n.Fields[k]
		if tk != 255 && v.K != tk {
			continue
		}
		slot := k
		if name != "Map" && name != "MapAsync" {
			slot = "v"
		}
		r.Fields[k] = mapFn(fn, slot, v)
	}
	mf := func(slot string, v any) any {
		simrt.Yield()
		m := h.mvOfGo(v)
		if m.K == 255 {
			return "unknown-container"
		}
		return mapFn(fn, slot, m).goValue()
	}
	var o at.Object
	p, msg := h.call(func() {
		ob := n.object()
		switch name {
		case "Map":
			o = ob.Map(func(k string, v any) any { return mf(k, v) })
		case "MapAsync":
			o = ob.MapAsync(func(k string, v any) any { return mf(k, v) })
		case "MapValues":
			o = ob.MapValues(func(v any) any { return mf("v", v) })
		case "MapObjects":
			o = ob.MapObjects(func(v at.Object) any { return mf("v", v) })
		case "MapLists":
			o = ob.MapLists(func(v at.List) any { return mf("v", v) })
		case "MapStrings":
			o = ob.MapStrings(func(v string) any { return mf("v", v) })
		case "MapBools":
			o = ob.MapBools(func(v bool) any { return mf("v", v) })
		case "MapInts":
			o = ob.MapInts(func(v int) any { return mf("v", v) })
		case "MapFloats":
			o = ob.MapFloats(func(v float64) any { return mf("v", v) })
		}
	})
	h.tracef("%s.%s(fn%d)", n.Name, name, fn)
	if !h.mustNotPanic(p, msg) {
		return
	}
	if !h.bindResult(r, o, h.curOwner) {
		return
	}
	h.derive(r, name, n)
	h.trace[len(h.trace)-1] += " -> " + r.Name
	h.heapCheck()
}

// ---- Clone (C08) -----------------------------------------------------------------------------------------

func opClone(h *Hist) {
	n := h.pickAny()
	if n == nil || !h.plain(n) {
		return
	}
	derivedBelow := h.hasDerivedBelow(n)
	if len(h.nodes)+len(reach(n)) > h.maxNodes+8 && !(h.sizeClass >= 2 && len(h.nodes) < 25000) {
		return
	}
	h.begin("Clone", "C08")
	var c any
	p, msg := h.call(func() {
		if n.IsObj {
			c = n.object().Clone()
		} else {
			c = n.list().Clone()
		}
	})
	h.tracef("%s.Clone()", n.Name)
	if !h.mustNotPanic(p, msg) {
		return
	}
	r := h.newPending(n.IsObj, "Clone", pendFresh, n)
	h.cloneShape(r, n, pendFresh)
	src := sortedNodes(reach(n))
	if !h.bindResult(r, c, []string{"C08"}) {
		return
	}
	// every container reachable from the clone is related to every container reachable from the source
	// (kept as two tags per Clone call rather than pairwise: a tree of thousands of containers is cloned in linear time)
	h.cloneCalls++
	for _, a := range sortedNodes(reach(r)) {
		h.cloneTags[a.ID] = append(h.cloneTags[a.ID], 2*h.cloneCalls)
	}
	for _, b := range src {
		h.cloneTags[b.ID] = append(h.cloneTags[b.ID], 2*h.cloneCalls+1)
	}
	h.aliased = true
	if len(src) > 1 {
		h.counters["probe:clone-nested"]++
	}
	if d := depthOf(n, 0); d >= 3 {
		h.counters["probe:clone-depth>=3"]++
	}
	if len(src) < len(occurrences(n)) {
		h.counters["probe:clone-source-holds-a-container-twice"]++
	}
	if derivedBelow {
		// a derived structure inside the tree is copied as a plain container; Equals between a plain and a derived
		// container is outside the statement, freshness and independence are not
		h.counters["probe:clone-with-derived-structure-inside"]++
		h.trace[len(h.trace)-1] += " -> " + r.Name
		h.heapCheck()
		return
	}
	// Equals both ways
	var e1, e2 bool
	pe, _ := h.call(func() {
		if n.IsObj {
			e1, e2 = n.object().Equals(r.object()), r.object().Equals(n.object())
		} else {
			e1, e2 = n.list().Equals(r.list()), r.list().Equals(n.list())
		}
	})
	if pe || !e1 || !e2 {
		h.fail("clone-equals", "Clone", []string{"C08"}, fmt.Sprintf("%s.Clone() does not Equal its source (source.Equals(clone)=%v, clone.Equals(source)=%v, panicked=%v); source %s", n.Name, e1, e2, pe, n.render(0)))
		return
	}
	h.trace[len(h.trace)-1] += " -> " + r.Name
	h.heapCheck()
}

func depthOf(n *Node, d int) int {
	best := d + 1
	for _, v := range n.Elems {
		if v.isRef() {
			if x := depthOf(v.N, d+1); x > best {
				best = x
			}
		}
	}
	for _, v := range n.Fields {
		if v.isRef() {
			if x := depthOf(v.N, d+1); x > best {
				best = x
			}
		}
	}
	return best
}

// occurrences lists the containers below n with multiplicity (n itself included).
func occurrences(n *Node) []*Node {
	out := []*Node{n}
	for _, v := range n.Elems {
		if v.isRef() {
			out = append(out, occurrences(v.N)...)
		}
	}
	for _, k := range n.keys() {
		if v := n.Fields[k]; v.isRef() {
			out = append(out, occurrences(v.N)...)
		}
	}
	return out
}

// trickyMissingKey returns a key that n does not have but that a sloppy implementation might resolve:
// "K1.K2" / "K1#i" where K1 holds a container that has K2 / index i, a key differing from an existing one
// only by case or surrounding space, or the empty key. "" if nothing suitable exists.
func (h *Hist) trickyMissingKey(n *Node) string {
	var cands []string
	for _, k := range n.keys() {
		v := n.Fields[k]
		if v.K == KObj {
			for _, k2 := range v.N.keys() {
				cands = append(cands, k+"."+k2)
			}
		}
		if v.K == KList && len(v.N.Elems) > 0 {
			cands = append(cands, k+"#0", k+"#"+strconv.Itoa(len(v.N.Elems)-1))
		}
		cands = append(cands, k+" ", " "+k, strings.ToUpper(k), k+"\x00")
	}
	cands = append(cands, "")
	var absent []string
	for _, c := range cands {
		if _, ok := n.Fields[c]; !ok {
			absent = append(absent, c)
		}
	}
	if len(absent) == 0 {
		return ""
	}
	// prefer the path-like candidates
	var paths []string
	for _, c := range absent {
		if strings.ContainsAny(c, ".#") {
			paths = append(paths, c)
		}
	}
	if len(paths) > 0 && h.d.Draw("tricky-path", 4) > 0 {
		return paths[h.d.Draw("tricky-which", len(paths))]
	}
	return absent[h.d.Draw("tricky-which", len(absent))]
}

var hugeSizes = []int{63, 64, 65, 100, 127, 128, 129, 255, 256, 257, 300, 511, 513, 1000, 1025}

// opNewHuge builds a list far larger than the usual bound, with a few nested containers at the
// beginning, in the middle and in the tail: implementations that switch strategy at a size threshold
// (chunked copies, batch workers) behave differently only there.
func opNewHuge(h *Hist) {
	if h.d.Draw("huge-many-containers", 12) == 0 {
		opNewManyContainers(h)
		return
	}
	h.begin("NewList", "C05")
	size := hugeSizes[h.d.Draw("huge-size", len(hugeSizes))]
	n := h.newNode(false, "NewList")
	n.Pend = &pending{mode: pendFresh, group: h.group}
	gvs := make([]any, size)
	nested := map[int]bool{0: h.d.Draw("huge-nest-first", 2) == 0, size / 2: true, size - 1: true, size - 1 - h.d.Draw("huge-nest-tail", 40): true, h.d.Draw("huge-nest-any", size): true}
	for i := 0; i < size; i++ {
		var mv MVal
		if nested[i] {
			c := h.newPending(i%2 == 0, "NewList", pendFresh, nil)
			if c.IsObj {
				c.Fields["k"] = mInt(i)
				gvs[i] = map[string]any{"k": i}
			} else {
				c.Elems = []MVal{mInt(i)}
				gvs[i] = []any{i}
			}
			mv = mRef(c)
		} else {
			switch i % 3 {
			case 0:
				mv = mInt(i)
			case 1:
				mv = mString(stringPool[i%len(stringPool)])
			default:
				mv = mFloat(float64(i) + 0.5)
			}
			gvs[i] = mv.goValue()
		}
		n.Elems = append(n.Elems, mv)
	}
	var l at.List
	p, msg := h.call(func() { l = at.NewList(gvs...) })
	if !h.mustNotPanic(p, msg) {
		return
	}
	h.counters["probe:huge-list"]++
	if h.bindResult(n, l, h.curOwner) {
		h.tracef("%s := NewList(%d elements, nested containers at %d positions)", n.Name, size, len(nested))
	}
}

var deepDepths = []int{9, 17, 33, 63, 64, 65, 66, 70, 100, 129, 200}

// opNewDeep builds a chain of alternating lists and objects nested far deeper than histories reach by themselves.
func opNewDeep(h *Hist) {
	h.begin("NewList", "C05")
	depth := deepDepths[h.d.Draw("deep-depth", len(deepDepths))]
	var inner any = []any{"leaf"}
	leaf := h.newPending(false, "NewList", pendFresh, nil)
	leaf.Elems = []MVal{mString("leaf")}
	cur := leaf
	for i := 0; i < depth; i++ {
		var nn *Node
		if i%2 == 0 {
			nn = h.newPending(true, "NewList", pendFresh, nil)
			nn.Fields["d"] = mRef(cur)
			nn.Fields["i"] = mInt(i)
			inner = map[string]any{"d": inner, "i": i}
		} else {
			nn = h.newPending(false, "NewList", pendFresh, nil)
			nn.Elems = []MVal{mInt(i), mRef(cur)}
			inner = []any{i, inner}
		}
		cur = nn
	}
	root := h.newNode(false, "NewList")
	root.Pend = &pending{mode: pendFresh, group: h.group}
	root.Elems = []MVal{mRef(cur)}
	var l at.List
	p, msg := h.call(func() { l = at.NewList(inner) })
	if !h.mustNotPanic(p, msg) {
		return
	}
	h.counters["probe:deep-chain"]++
	if h.bindResult(root, l, h.curOwner) {
		h.tracef("%s := NewList(chain of %d nested containers)", root.Name, depth+1)
	}
}

// opBurst repeats one mutator many times on one container (heavy-tailed count): growth far past the usual size,
// long drains after growth, many removals from one object. Implementations that change strategy after N operations
// or at a capacity/occupancy threshold (shrinking, compaction, batching) are only reached this way.
// Every sub-step is checked on the target (content and returned identity); the whole heap is checked at the end.
func opBurst(h *Hist) {
	n := h.pickAny()
	if n == nil || len(n.Elems) > 600 || len(n.Fields) > 600 {
		return // every sub-step is checked in full: quadratic on the huge containers of other size classes
	}
	m := 4 + h.d.Draw("burst-n", 12)
	switch h.d.Draw("burst-tail", 6) {
	case 0:
		m = 20 + h.d.Draw("burst-n-long", 60)
	case 1:
		m = 60 + h.d.Draw("burst-n-very-long", 120)
	}
	var kinds []string
	if n.IsObj {
		kinds = []string{"Set-new-keys", "Unset-one-by-one", "Set-then-Unset", "Unset-pairs"}
	} else {
		kinds = []string{"Add", "Pop", "Delete-first", "Delete-middle", "Insert-front", "Add-then-drain", "Add-then-Delete-first"}
		if h.prop == "C11" || h.prop == "C08" || h.prop == "C19" {
			// the same growth and drain through tree-form paths
			kinds = append(kinds, "SetTF-append-then-UnsetTF-first", "SetTF-append-then-UnsetTF-middle", "SetTF-append-then-UnsetTF-first")
		}
	}
	kind := kinds[h.d.Draw("burst-kind", len(kinds))]
	h.begin("Burst", h.ownerOf(n)...)
	h.touch(n)
	h.counters["probe:burst-"+kind]++
	h.tracef("%s: burst %s x%d", n.Name, kind, m)
	step := func(op string, f func() any, model func()) bool {
		h.curOp = op
		var ret any
		p, msg := h.call(func() { ret = f() })
		if !h.mustNotPanic(p, msg) {
			return false
		}
		model()
		h.checkRet(ret, n)
		if h.dead {
			return false
		}
		if mm := h.checkNode(n); mm != nil {
			h.fail("result", op, h.curOwner, fmt.Sprintf("during a burst of %s (x%d): %s", kind, m, mm.msg))
			return false
		}
		return true
	}
	addOne := func(i int) bool {
		mv := mInt(1000 + i)
		if i%5 == 4 {
			mv = mString("b" + strconv.Itoa(i))
		}
		return step("Add", func() any { return n.list().Add(mv.goValue()) }, func() { n.Elems = append(n.Elems, mv) })
	}
	delAt := func(idx func() int) bool {
		if len(n.Elems) == 0 {
			return false
		}
		i := idx()
		return step("Delete", func() any { return n.list().Delete(i) }, func() { n.Elems = append(n.Elems[:i], n.Elems[i+1:]...) })
	}
	if n.IsObj {
		o := n.object()
		setNew := func(i int) bool {
			key := "burst" + strconv.Itoa(i)
			mv := mInt(i)
			return step("Set", func() any { return o.Set(key, mv.goValue()) }, func() { n.Fields[key] = mv })
		}
		unsetOne := func() bool {
			ks := n.keys()
			if len(ks) == 0 {
				return false
			}
			key := ks[h.d.Draw("burst-key", len(ks))]
			return step("Unset", func() any { return o.Unset(key) }, func() { delete(n.Fields, key) })
		}
		switch kind {
		case "Set-new-keys":
			for i := 0; i < m && len(n.Fields) < 220; i++ {
				if !setNew(i) {
					return
				}
			}
		case "Unset-one-by-one":
			for i := 0; i < m; i++ {
				if !unsetOne() {
					break
				}
			}
		case "Set-then-Unset":
			for i := 0; i < m && len(n.Fields) < 220; i++ {
				if !setNew(i) {
					return
				}
			}
			for i := 0; i < m+h.d.Draw("burst-extra", 8); i++ {
				if !unsetOne() {
					break
				}
			}
		case "Unset-pairs":
			for i := 0; i < m && len(n.Fields) < 220; i++ {
				if !setNew(i) {
					return
				}
			}
			// removals in multi-key calls (present keys, sometimes a missing one in between)
			for len(n.Fields) > 0 && !h.dead {
				ks := n.keys()
				k := 2 + h.d.Draw("burst-unset-k", 3)
				var keys []string
				for j := 0; j < k && j < len(ks); j++ {
					keys = append(keys, ks[(h.d.Draw("burst-key", len(ks))+j)%len(ks)])
				}
				if h.d.Draw("burst-missing", 4) == 0 {
					keys = append(keys[:1], append([]string{"no-such-key"}, keys[1:]...)...)
				}
				if !step("Unset", func() any { return o.Unset(keys...) }, func() {
					for _, key := range keys {
						delete(n.Fields, key)
					}
				}) {
					return
				}
			}
		}
		h.curOp = "Burst"
		h.heapCheck()
		return
	}
	switch kind {
	case "Add":
		for i := 0; i < m && len(n.Elems) < 400; i++ {
			if !addOne(i) {
				return
			}
		}
	case "Pop":
		for i := 0; i < m && len(n.Elems) > 0; i++ {
			if !step("Pop", func() any { return n.list().Pop() }, func() { n.Elems = n.Elems[:len(n.Elems)-1] }) {
				return
			}
		}
	case "Delete-first":
		for i := 0; i < m; i++ {
			if !delAt(func() int { return 0 }) {
				break
			}
		}
	case "Delete-middle":
		for i := 0; i < m; i++ {
			if !delAt(func() int { return h.d.Draw("burst-idx", len(n.Elems)) }) {
				break
			}
		}
	case "Insert-front":
		for i := 0; i < m && len(n.Elems) < 400; i++ {
			mv := mInt(2000 + i)
			if !step("Insert", func() any { return n.list().Insert(0, mv.goValue()) }, func() { n.Elems = append([]MVal{mv}, n.Elems...) }) {
				return
			}
		}
	case "SetTF-append-then-UnsetTF-first", "SetTF-append-then-UnsetTF-middle":
		h.curOwner = []string{"C11"}
		for i := 0; i < m && len(n.Elems) < 400; i++ {
			mv := mInt(3000 + i)
			at := len(n.Elems)
			if !step("SetTF", func() any { return n.list().SetTF("#"+strconv.Itoa(at), mv.goValue()) }, func() { n.Elems = append(n.Elems, mv) }) {
				return
			}
		}
		keep := h.d.Draw("burst-keep", 6)
		for len(n.Elems) > keep && !h.dead {
			i := 0
			if kind == "SetTF-append-then-UnsetTF-middle" {
				i = h.d.Draw("burst-idx", len(n.Elems))
			}
			if !step("UnsetTF", func() any { return n.list().UnsetTF("#" + strconv.Itoa(i)) }, func() { n.Elems = append(n.Elems[:i], n.Elems[i+1:]...) }) {
				return
			}
		}
	case "Add-then-drain", "Add-then-Delete-first":
		for i := 0; i < m && len(n.Elems) < 400; i++ {
			if !addOne(i) {
				return
			}
		}
		keep := h.d.Draw("burst-keep", 6)
		for len(n.Elems) > keep && !h.dead {
			if kind == "Add-then-drain" {
				switch h.d.Draw("burst-drain", 3) {
				case 0:
					if !step("Pop", func() any { return n.list().Pop() }, func() { n.Elems = n.Elems[:len(n.Elems)-1] }) {
						return
					}
				default:
					if !delAt(func() int { return h.d.Draw("burst-idx", len(n.Elems)) }) {
						return
					}
				}
			} else if !delAt(func() int { return 0 }) {
				return
			}
		}
	}
	h.curOp = "Burst"
	h.heapCheck()
}

// tail draws a small count, occasionally a much larger one (bounds of "typical" argument counts are where bulk paths start).
func (h *Hist) tail(label string, small int, big int) int {
	if h.d.Draw(label+"-tail", 10) == 0 {
		return small + h.d.Draw(label+"-big", big)
	}
	return h.d.Draw(label, small)
}

// opNewManyContainers builds one list holding more than ten thousand empty containers (counters of visited
// containers, depth budgets and pools have limits far above ordinary trees).
func opNewManyContainers(h *Hist) {
	h.begin("NewList", "C05")
	size := []int{10001, 10500, 16385}[h.d.Draw("many-size", 3)]
	n := h.newNode(false, "NewList")
	n.Pend = &pending{mode: pendFresh, group: h.group}
	gvs := make([]any, size)
	for i := 0; i < size; i++ {
		c := h.newPending(i%2 == 0, "NewList", pendFresh, nil)
		if c.IsObj {
			gvs[i] = map[string]any{}
		} else {
			gvs[i] = []any{}
		}
		n.Elems = append(n.Elems, mRef(c))
	}
	var l at.List
	p, msg := h.call(func() { l = at.NewList(gvs...) })
	if !h.mustNotPanic(p, msg) {
		return
	}
	h.counters["probe:list-of-many-empty-containers"]++
	if h.bindResult(n, l, h.curOwner) {
		h.tracef("%s := NewList(%d empty containers)", n.Name, size)
	}
}
