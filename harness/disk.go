package main

// Engine `disk` (property C04): a writer stores documents the library serialised itself, the
// disk (simulated, or a real temporary directory) tears, corrupts or refuses, and the readers
// ParseFile / ParseObject / ParseList must stay total, exclusive, repeatable and reject every
// truncated or ill-formed document.

import (
	"bytes"
	"compress/gzip"
	"compress/zlib"
	"encoding/base64"
	"fmt"
	"os"
	"path/filepath"
	"reflect"
	"strconv"
	"strings"
	"time"
	"unicode/utf16"
	"unicode/utf8"

	at "github.com/DanielSvub/anytype"
	"verif.local/simrt"
)

const simMount = "/verif-simdisk/"

var realDir string

func realDiskDir() string {
	if realDir == "" {
		base := os.Getenv("VERIF_SCRATCH")
		d, err := os.MkdirTemp(base, "realdisk-")
		if err != nil {
			panic("cannot create the real-disk directory: " + err.Error())
		}
		realDir = d
	}
	return realDir
}

type outcome struct {
	panicked  bool
	pmsg      string
	hasVal    bool
	nilInside bool
	hasErr    bool
	canon     string
	obj       at.Object
}

func (o outcome) class() string {
	switch {
	case o.panicked:
		return "panic"
	case o.hasVal && !o.hasErr:
		return "value"
	case !o.hasVal && o.hasErr:
		return "error"
	case o.hasVal && o.hasErr:
		return "value+error"
	}
	return "nil+nil"
}

func (o outcome) exclusive() bool { return !o.panicked && o.hasVal != o.hasErr && !o.nilInside }

func observe(f func() (any, error)) (o outcome) {
	var v any
	var err error
	o.panicked, o.pmsg = try(func() { v, err = f() })
	if o.panicked {
		return
	}
	o.hasErr = err != nil
	switch x := v.(type) {
	case at.List:
		o.hasVal = x != nil
	case at.Object:
		o.hasVal = x != nil
		if o.hasVal && !reflect.ValueOf(v).IsNil() {
			o.obj = x
		}
	}
	if o.hasVal {
		if reflect.ValueOf(v).IsNil() {
			o.nilInside = true
			return
		}
		if p, _ := try(func() { o.canon = canon(v, nil) }); p {
			o.canon = "<unreadable container>"
		}
	}
	return
}

func parseObj(s string) outcome {
	return observe(func() (any, error) { o, e := at.ParseObject(s); return o, e })
}
func parseLst(s string) outcome {
	return observe(func() (any, error) { l, e := at.ParseList(s); return l, e })
}
func parseFil(p string) outcome {
	return observe(func() (any, error) { o, e := at.ParseFile(p); return o, e })
}

type diskRun struct {
	res      *RunResult
	disk     *simrt.Disk
	real     bool
	nfile    int
	where    string
	failed   bool
	oddNames bool
}

func (d *diskRun) fail(oracle, msg string) {
	if d.failed {
		return
	}
	d.failed = true
	d.res.Failures = append(d.res.Failures, Failure{Oracle: oracle, Sig: "C04/" + oracle + "/" + d.where, Props: []string{"C04"}, Msg: msg})
	d.res.Trace = append(d.res.Trace, "!! "+oracle+": "+msg)
}

// store writes data as a new file on the selected disk and returns its path.
func (d *diskRun) store(data []byte) string {
	d.nfile++
	name := fmt.Sprintf("doc-%d.json", d.nfile%64)
	if d.oddNames {
		// file names a path-normalising reader would mangle: surrounding blanks, dots, unicode, long names
		name = []string{"doc %d.json ", " doc-%d.json", "doc-%d.json.", "döc-%d.json", "doc-%d..json", "-doc-%d", "doc-%d.JSON", strings.Repeat("n", 180) + "-%d", "~doc-%d.json", "doc-%d.json\t"}[d.nfile%10]
		name = fmt.Sprintf(name, d.nfile%64)
	}
	if d.real {
		p := filepath.Join(realDiskDir(), name)
		if err := os.WriteFile(p, data, 0o644); err != nil {
			panic("real disk write failed: " + err.Error())
		}
		return p
	}
	p := simMount + fmt.Sprintf("%d-", d.nfile) + name
	d.disk.Put(p, data)
	return p
}

// storeAt overwrites the file at an existing path.
func (d *diskRun) storeAt(p string, data []byte) {
	if d.real {
		if err := os.WriteFile(p, data, 0o644); err != nil {
			panic("real disk write failed: " + err.Error())
		}
		return
	}
	d.disk.Put(p, data)
}

var utf8Atoms = [][]byte{
	{0x80}, {0xBF}, // stray continuation
	{0xC3}, {0xE2, 0x82}, {0xF0, 0x9F, 0x98}, // truncated
	{0xC0, 0xAF}, {0xE0, 0x80, 0xAF}, // overlong
	{0xED, 0xA0, 0x80},               // encoded surrogate
	{0xF5, 0x80, 0x80, 0x80}, {0xFF}, // out of range
	// boundary cases of each rule of the encoding
	{0xF4, 0x90, 0x80, 0x80}, {0xF4, 0xBF, 0xBF, 0xBF}, // beyond U+10FFFF with a legal lead byte
	{0xC1, 0xBF}, {0xE0, 0x9F, 0xBF}, {0xF0, 0x8F, 0xBF, 0xBF}, // largest overlong forms
	{0xED, 0xBF, 0xBF}, {0xED, 0xB0, 0x80}, // last surrogate, first low surrogate
	{0xF8, 0x88, 0x80, 0x80, 0x80}, {0xFE}, // five-byte form, FE
	{0xC2}, {0xDF}, {0xEF, 0xBF}, {0xF4, 0x8F, 0xBF}, // truncated right below a boundary
	{0xE1, 0x80, 0xC0}, {0xF1, 0x80, 0x80, 0x7F}, // bad continuation byte in the last position
	{0x85}, {0xA0}, {0x93}, {0xAD}, {0xE9}, // single bytes that mean something in Latin-1 / Windows-1252 (NEL, NBSP, a quote, soft hyphen, é)
}

var utf8AtomNames = []string{"stray-80", "stray-BF", "trunc-2", "trunc-3", "trunc-4", "overlong-2", "overlong-3", "surrogate", "above-F4", "FF",
	"beyond-10FFFF-F490", "beyond-10FFFF-F4BF", "overlong-C1", "overlong-E09F", "overlong-F08F", "surrogate-EDBFBF", "surrogate-low", "five-byte", "FE",
	"trunc-C2", "trunc-DF", "trunc-EFBF", "trunc-F48FBF", "bad-cont-3", "bad-cont-4", "latin1-NEL-85", "latin1-NBSP-A0", "cp1252-quote-93", "latin1-SHY-AD", "latin1-E9"}

var placementNames = []string{"after-backslash", "inside-string-value", "inside-key", "inside-number-or-literal", "between-tokens", "after-whitespace"}

// placements lists, per syntactic class, the offsets (1..len-1) at which an atom can be inserted.
func placements(b []byte) [6][]int {
	var out [6][]int
	inStr, esc, isKey := false, false, false
	depthKinds := []byte{}
	expectKey := false
	for k := 0; k < len(b); k++ {
		c := b[k]
		if k >= 1 {
			switch {
			case inStr && esc:
				out[0] = append(out[0], k)
			case inStr && isKey:
				out[2] = append(out[2], k)
			case inStr:
				out[1] = append(out[1], k)
			case (c >= '0' && c <= '9') || (c >= 'a' && c <= 'z') || c == '.' || c == '-':
				out[3] = append(out[3], k)
			default:
				out[4] = append(out[4], k)
			}
			if !inStr && (b[k-1] == ' ' || b[k-1] == '\t' || b[k-1] == '\n' || b[k-1] == '\r') {
				out[5] = append(out[5], k)
			}
		}
		if inStr {
			if esc {
				esc = false
			} else if c == '\\' {
				esc = true
			} else if c == '"' {
				inStr = false
			}
			continue
		}
		switch c {
		case '"':
			inStr, isKey = true, expectKey
			expectKey = false
		case '{':
			depthKinds = append(depthKinds, '{')
			expectKey = true
		case '[':
			depthKinds = append(depthKinds, '[')
		case '}', ']':
			if len(depthKinds) > 0 {
				depthKinds = depthKinds[:len(depthKinds)-1]
			}
		case ',':
			expectKey = len(depthKinds) > 0 && depthKinds[len(depthKinds)-1] == '{'
		}
	}
	return out
}

var diskFaults = []string{"none", "torn", "torn", "torn", "utf8", "utf8", "bitflip", "garbage-span", "dropped-span", "duplicated-span",
	"zero-tail", "random-bytes", "decorated", "read-fault", "read-fault", "tiny-inputs", "rewrite-in-place", "token-soup", "transcoded", "very-deep", "many-values", "concurrent-readers"}

func genDocument(s *simrt.Sim, objRoot bool) (any, string) {
	o := treeOpts{depth: 1 + s.Draw("doc-depth", 3), width: 1 + s.Draw("doc-width", 6), jsonSafe: true}
	size := s.Draw("doc-size", 40)
	var c any
	switch {
	case size == 0:
		// wide: more than 64 KiB, so that a reader that fetches one buffer's worth is seen
		l := at.NewList()
		n := 1500 + s.Draw("wide-n", 1000)
		for i := 0; i < n; i++ {
			piece := stringPool[s.Draw("string", len(stringPool))]
			if len(piece) > 24 {
				piece = piece[:24] // the long pool entries would make this document tens of megabytes
			}
			l.Add(strings.Repeat(piece+"x", 1+i%40))
		}
		if objRoot {
			c = at.NewObject("wide", l, "k", 1)
		} else {
			c = l
		}
	case size == 1:
		// medium: 5-20 KiB
		l := at.NewList()
		n := 100 + s.Draw("mid-n", 300)
		for i := 0; i < n; i++ {
			l.Add(genValue(s, treeOpts{depth: 1, width: 4, jsonSafe: true}))
		}
		if objRoot {
			c = at.NewObject("mid", l)
		} else {
			c = l
		}
	case size == 3:
		// exact size: the serialised text is padded to a buffer-size boundary (minus one, exactly, plus one)
		target := []int{512, 4096, 8192, 32768, 65536, 131072}[s.Draw("exact-size", 6)] + s.Draw("exact-delta", 3) - 1
		var base any
		if objRoot {
			base = at.NewObject("pad", "", "n", 1, "l", at.NewList(true, nil))
		} else {
			base = at.NewList("", 1, at.NewObject("k", "v"))
		}
		cur := 0
		switch x := base.(type) {
		case at.List:
			cur = len(x.String())
			x.Replace(0, strings.Repeat("p", target-cur))
		case at.Object:
			cur = len(x.String())
			x.Set("pad", strings.Repeat("p", target-cur))
		}
		c = base
	case size == 2:
		// deep nesting
		var inner any = at.NewList(1)
		n := 200 + s.Draw("deep-n", 1800)
		for i := 0; i < n; i++ {
			if i%2 == 0 {
				inner = at.NewList(inner)
			} else {
				inner = at.NewObject("d", inner)
			}
		}
		if objRoot {
			c = at.NewObject("deep", inner)
		} else {
			c = at.NewList(inner)
		}
	default:
		if objRoot {
			c = genObject(s, o)
		} else {
			c = genList(s, o)
		}
	}
	var doc string
	switch x := c.(type) {
	case at.List:
		doc = x.String()
	case at.Object:
		doc = x.String()
	}
	return c, doc
}

// restyle renders a document the way other writers do: pretty-printed by the library itself, with white space between the
// tokens, or with the string contents written in JSON's other spellings (\/ , \uXXXX, surrogate pairs — and, rarely, a lone
// surrogate escape, which no writer should produce and a parser must still survive).
func restyle(s *simrt.Sim, root any, doc string) (string, string) {
	switch s.Draw("doc-style", 6) {
	case 0:
		indent := s.Draw("indent", 5)
		out := doc
		try(func() {
			switch x := root.(type) {
			case at.List:
				out = x.FormatString(indent)
			case at.Object:
				out = x.FormatString(indent)
			}
		})
		return "pretty", strings.TrimRight(out, " \t\r\n")
	case 1:
		// white space after structural characters outside strings
		ws := []string{" ", "\t", "\n", "\r\n", "  ", " \n\t", "\n\n"}
		var b strings.Builder
		inStr, esc := false, false
		for i := 0; i < len(doc); i++ {
			c := doc[i]
			b.WriteByte(c)
			if inStr {
				if esc {
					esc = false
				} else if c == '\\' {
					esc = true
				} else if c == '"' {
					inStr = false
				}
				if inStr {
					continue
				}
			} else if c == '"' {
				inStr = true
				continue
			}
			if (c == ',' || c == ':' || c == '[' || c == '{' || c == '"' || c == ']' || c == '}' || (c >= '0' && c <= '9' && i+1 < len(doc) && (doc[i+1] == ',' || doc[i+1] == ']' || doc[i+1] == '}'))) && s.Draw("ws", 3) == 0 {
				b.WriteString(ws[s.Draw("ws-kind", len(ws))])
			}
		}
		// (nothing after the root's closing bracket: "between its root brackets" is what the checks below rely on)
		return "spaced", strings.TrimRight(b.String(), " \t\r\n")
	case 2:
		// other spellings of the string contents
		var b strings.Builder
		inStr, esc := false, false
		lone := s.Draw("lone-surrogate", 4) == 0
		for i := 0; i < len(doc); {
			r, n := utf8.DecodeRuneInString(doc[i:])
			c := doc[i]
			switch {
			case !inStr:
				b.WriteString(doc[i : i+n])
				if c == '"' {
					inStr = true
				}
			case esc:
				b.WriteString(doc[i : i+n])
				esc = false
			case c == '\\':
				b.WriteByte(c)
				esc = true
			case c == '"':
				if lone && s.Draw("lone-here", 3) == 0 {
					b.WriteString([]string{"\\uD83D", "\\uDE00", "\\ud800", "\\uDBFF\\u0041"}[s.Draw("lone-kind", 4)])
				}
				b.WriteByte(c)
				inStr = false
			case c == '/' && s.Draw("esc-slash", 2) == 0:
				b.WriteString("\\/")
			case r >= 0x10000 && n == 4 && s.Draw("esc-astral", 2) == 0:
				r1, r2 := utf16.EncodeRune(r)
				fmt.Fprintf(&b, "\\u%04X\\u%04x", r1, r2)
			case (r >= 0x80 && r != utf8.RuneError && s.Draw("esc-bmp", 2) == 0) || (r >= 'a' && r <= 'f' && s.Draw("esc-ascii", 8) == 0):
				if r < 0x10000 {
					fmt.Fprintf(&b, "\\u%04x", r)
				} else {
					b.WriteString(doc[i : i+n])
				}
			default:
				b.WriteString(doc[i : i+n])
			}
			i += n
		}
		return "escaped", b.String()
	}
	return "compact", doc
}

func runDisk(ch *simrt.Chooser, opt Options) RunResult {
	res := RunResult{Counters: map[string]int{}}
	disk := simrt.NewDisk(simMount)
	cfg := simrt.Config{MaxSteps: 1 << 30, Disk: disk}
	cfg.Policy = []simrt.Policy{simrt.PolRandom, simrt.PolStall, simrt.PolHighest, simrt.PolRoundRobin}[ch.Draw("policy", 4)]
	cfg.SwitchPermille = []int{200, 600, 1000}[ch.Draw("switch-rate", 3)]
	cfg.StallAfterUnlockPermille = 300
	cfg.KeyOrder = simrt.KeyPolicy(ch.Draw("key-order", int(simrt.NumKeyPolicies)))
	// (only a tree that reads through os.Open meets this: every Read delivers a drawn part of what was asked for)
	if ch.Draw("short-reads", 3) > 0 {
		disk.SetShortReads(true)
		res.Counters["disk:short-reads-enabled"]++
	}
	d := &diskRun{res: &res, disk: disk}
	out := simrt.Run(ch, cfg, func(s *simrt.Sim) {
		d.real = s.Draw("disk", 4) == 0
		d.oddNames = s.Draw("odd-file-names", 5) == 0
		if os.Getenv("VERIF_REALDISK_ONLY") != "" {
			d.real = true
		}
		objRoot := s.Draw("root", 3) > 0
		fault := diskFaults[s.Draw("fault", len(diskFaults))]
		if opt.Scenario >= 0 {
			fault = diskFaults[opt.Scenario%len(diskFaults)]
		}
		d.where = fault
		root, doc := genDocument(s, objRoot)
		// the same document as another writer would have stored it (the classes that speak about String() output keep the compact text)
		style := "compact"
		if fault != "torn" && fault != "many-values" && len(doc) < 200000 {
			style, doc = restyle(s, root, doc)
		}
		res.Counters["disk:style-"+style]++
		diskName := "simulated"
		if d.real {
			diskName = "real"
		}
		res.Config = map[string]any{"fault": fault, "disk": diskName, "root": map[bool]string{true: "object", false: "list"}[objRoot], "doc_bytes": len(doc)}
		res.Counters["disk:"+diskName]++
		res.Trace = append(res.Trace, fmt.Sprintf("document (%d bytes, %s root): %s", len(doc), res.Config["root"], short(doc, 200)))
		parse := parseLst
		if objRoot {
			parse = parseObj
		}
		// both entry points on one stored byte string, with all the generic obligations
		both := func(data []byte, what string) outcome {
			o1 := parse(string(data))
			res.Evals++
			if !o1.exclusive() {
				d.fail("not-exclusive", fmt.Sprintf("%s: outcome %s (panic %q) on %s", what, o1.class(), o1.pmsg, short(fmt.Sprintf("%q", data), 200)))
				return o1
			}
			o2 := parse(string(data))
			if o2.class() != o1.class() || o2.canon != o1.canon {
				d.fail("not-repeatable", fmt.Sprintf("%s: first %s, then %s on the same input %s", what, o1.class(), o2.class(), short(fmt.Sprintf("%q", data), 200)))
				return o1
			}
			if objRoot {
				p := d.store(data)
				of := parseFil(p)
				res.Evals++
				if !of.exclusive() {
					d.fail("not-exclusive", fmt.Sprintf("%s: ParseFile outcome %s (panic %q)", what, of.class(), of.pmsg))
					return o1
				}
				if of.class() != o1.class() || of.canon != o1.canon {
					d.fail("parsefile-differs", fmt.Sprintf("%s: ParseFile gives %s %s, ParseObject on the same %d bytes gives %s %s", what, of.class(), short(of.canon, 120), len(data), o1.class(), short(o1.canon, 120)))
				} else if of.hasVal && of.obj != nil {
					// what a caller does with one result must not show in the next one (a reader-side cache handing out its own copy)
					try(func() { of.obj.Set("changed-by-the-caller", 1); of.obj.Unset("a", "b", "k1", "") })
					if s.Draw("time-between-reads", 3) == 0 {
						// (simulated time: whatever a reader keeps for a while must not show either)
						simrt.Sleep([]time.Duration{time.Millisecond, time.Second, 2 * time.Minute, 48 * time.Hour}[s.Draw("time-between-reads-d", 4)])
					}
					again := parseFil(p)
					res.Evals++
					if again.class() != o1.class() || again.canon != o1.canon {
						d.fail("parsefile-differs", fmt.Sprintf("%s: a second ParseFile of the unchanged file, after the caller modified the first result, gives %s %s instead of %s", what, again.class(), short(again.canon, 120), short(o1.canon, 120)))
					}
				}
			}
			return o1
		}
		fired := func(kind string) {
			res.Counters["fault:"+kind]++
			res.NonTrivial = true
		}
		b := []byte(doc)
		// the intact document is parsed before everything else and once more after all the other parses of this run:
		// "the same input always gives the same outcome", also across an intervening history of rejected inputs
		intact := doc
		base := parse(intact)
		defer func() {
			if d.failed {
				return
			}
			again := parse(intact)
			res.Evals++
			if again.class() != base.class() || again.canon != base.canon {
				d.fail("not-repeatable", fmt.Sprintf("the intact %d-byte document gave %s before and %s after the %d other parses of this run", len(intact), base.class(), again.class(), res.Evals))
			}
		}()
		switch fault {
		case "rewrite-in-place":
			// the same path is read, overwritten with different content of the same length, and read again
			if !objRoot {
				_, doc = genDocument(s, true)
				b = []byte(doc)
			}
			p := d.store(b)
			first := parseFil(p)
			res.Evals++
			if o := parseObj(doc); first.class() != o.class() || first.canon != o.canon {
				d.fail("parsefile-differs", fmt.Sprintf("ParseFile gives %s, ParseObject on the same %d bytes gives %s", first.class(), len(b), o.class()))
				break
			}
			variant := append([]byte(nil), b...)
			changed := 0
			for tries := 0; tries < 64 && changed < 1+s.Draw("rewrite-changes", 3) && len(variant) > 2; tries++ {
				k := 1 + s.Draw("rewrite-at", len(variant)-2)
				c := variant[k]
				switch {
				case c >= '0' && c <= '8':
					variant[k] = c + 1
					changed++
				case c >= 'a' && c <= 'y' && s.Draw("rewrite-letters", 2) == 0:
					variant[k] = c + 1
					changed++
				}
			}
			if changed == 0 && len(variant) > 2 {
				variant[1+s.Draw("rewrite-at", len(variant)-2)] ^= 0x01
			}
			d.storeAt(p, variant)
			fired("rewrite-same-length")
			res.Faults = append(res.Faults, fmt.Sprintf("file rewritten in place with %d changed byte(s), same length", changed))
			second := parseFil(p)
			want := parseObj(string(variant))
			res.Evals += 2
			if !second.exclusive() {
				d.fail("not-exclusive", "ParseFile after an in-place rewrite: "+second.class())
			} else if second.class() != want.class() || second.canon != want.canon {
				d.fail("parsefile-differs", fmt.Sprintf("after the file was rewritten in place ParseFile gives %s %s, ParseObject on the new bytes gives %s %s",
					second.class(), short(second.canon, 100), want.class(), short(want.canon, 100)))
			}
			res.Finger = fnv(0, hashString("rewrite"), hashString(string(variant)))
		case "none":
			both(b, "intact document")
			res.Finger = fnv(0, hashString("none"), hashString(doc))
		case "torn":
			// every cut point of small documents; sampled cut points of large ones
			var cuts []int
			if len(b) <= 1024 {
				for k := 0; k < len(b); k++ {
					cuts = append(cuts, k)
				}
				res.Counters["torn-documents-enumerated-exhaustively"]++
			} else {
				for i := 0; i < 96; i++ {
					cuts = append(cuts, s.Draw("cut", len(b)))
				}
				for k := 0; k < 32 && k < len(b); k++ {
					cuts = append(cuts, k, len(b)-1-k)
				}
				res.Counters["torn-documents-sampled"]++
			}
			for _, k := range cuts {
				fired("torn-write")
				if k > 0 && b[k-1] == '\\' {
					res.Counters["probe:cut-inside-escape"]++
				}
				if k > 0 && b[k-1] == '"' && k < len(b) && b[k] == ':' {
					res.Counters["probe:cut-between-key-and-colon"]++
				}
				if k == len(b)-1 {
					res.Counters["probe:cut-before-root-close"]++
				}
				if k > 2 && (strings.Contains(doc[:k], "]\"") || strings.Contains(doc[:k], "}\"")) {
					res.Counters["probe:closing-bracket-inside-string-before-cut"]++
				}
				o := parse(doc[:k])
				res.Evals++
				if o.class() != "error" {
					d.fail("truncated-accepted", fmt.Sprintf("prefix of length %d of a %d-byte document gives %s (panic %q): %s", k, len(b), o.class(), o.pmsg, short(fmt.Sprintf("%q", doc[:k]), 240)))
					break
				}
				if objRoot && (len(b) <= 512 || k%7 == 0) {
					p := d.store(b[:k])
					of := parseFil(p)
					res.Evals++
					if of.class() != "error" {
						d.fail("truncated-accepted", fmt.Sprintf("ParseFile on a torn file holding the first %d of %d bytes gives %s (panic %q)", k, len(b), of.class(), of.pmsg))
						break
					}
				}
			}
			res.Faults = append(res.Faults, fmt.Sprintf("torn write: %d cut points", len(cuts)))
			res.Finger = fnv(0, hashString("torn"), hashString(doc))
		case "token-soup":
			// JSON-ish tokens in random order, cut at a random point: number and escape spellings no serialiser emits
			toks := []string{"[", "]", "{", "}", "\"", "\"", ":", ",", ",", " ", "\n", "\r\n", "\t", "true", "false", "null", "tru", "nul", "True",
				"0", "-", "-0", "0x1F", "1e999", "-1e999", "+1", "--1", "1e", "1e+", ".5", "5.", "01", "1_000", strings.Repeat("9", 400), "9223372036854775808", "1E5", "0e0", "Infinity", "NaN",
				"\\n", "\\\"", "\\\\", "\\/", "\\u0041", "\\ud83d", "\\ude00", "\\uD83D\\uDE00", "\\u", "\\uD8", "\\ud83d\\u", "\\ud83d\\ud", "\\udbff\\u", "\\x41", "\\a", "\\U0001F600", "\\", "\\u00",
				"key", "a", "é", "😀", "\x00", "\x7f", "\xef\xbb\xbf", "\xff\xfe", "\xc3", "/*c*/", "//c\n", "'s'"}
			for round := 0; round < 40 && !d.failed; round++ {
				var sb strings.Builder
				if s.Draw("soup-root", 3) > 0 {
					sb.WriteString([]string{"[", "{", "[\"", "{\"k\":", "{\"k\":\"", "[[", "{\"a\":[", "[{\""}[s.Draw("soup-open", 8)])
				}
				n := 1 + s.Draw("soup-n", 14)
				for i := 0; i < n; i++ {
					sb.WriteString(toks[s.Draw("soup-tok", len(toks))])
				}
				text := sb.String()
				if s.Draw("soup-cut", 2) == 0 && len(text) > 1 {
					text = text[:1+s.Draw("soup-cut-at", len(text)-1)]
				}
				both([]byte(text), "token soup")
			}
			fired("token-soup")
			res.Faults = append(res.Faults, "40 token soups")
			res.Finger = fnv(0, hashString("soup"), uint64(s.Draw("soup-id", 1<<20)))
		case "transcoded":
			// the document re-encoded by a tool (UTF-16 LE/BE with byte order mark, UTF-8 BOM, Latin-1, NUL-interleaved, CRLF line ends)
			var enc []byte
			kind := []string{"utf16le-bom", "utf16be-bom", "utf16le", "utf8-bom", "latin1", "crlf", "nul-padded", "gzip", "zlib", "base64"}[s.Draw("transcode", 10)]
			runes := []rune(doc)
			switch kind {
			case "utf16le-bom", "utf16le", "utf16be-bom":
				if kind == "utf16le-bom" {
					enc = append(enc, 0xFF, 0xFE)
				} else if kind == "utf16be-bom" {
					enc = append(enc, 0xFE, 0xFF)
				}
				for _, r := range runes {
					units := []uint16{uint16(r)}
					if r > 0xFFFF {
						r -= 0x10000
						units = []uint16{0xD800 + uint16(r>>10), 0xDC00 + uint16(r&0x3FF)}
					}
					for _, u := range units {
						if kind == "utf16be-bom" {
							enc = append(enc, byte(u>>8), byte(u))
						} else {
							enc = append(enc, byte(u), byte(u>>8))
						}
					}
				}
			case "gzip":
				var zb bytes.Buffer
				zw := gzip.NewWriter(&zb)
				zw.Write(b)
				zw.Close()
				enc = zb.Bytes()
			case "zlib":
				var zb bytes.Buffer
				zw := zlib.NewWriter(&zb)
				zw.Write(b)
				zw.Close()
				enc = zb.Bytes()
			case "base64":
				enc = []byte(base64.StdEncoding.EncodeToString(b))
			case "utf8-bom":
				enc = append([]byte{0xEF, 0xBB, 0xBF}, b...)
			case "latin1":
				for _, r := range runes {
					enc = append(enc, byte(r))
				}
			case "crlf":
				enc = []byte(strings.ReplaceAll(strings.ReplaceAll(doc, ",", ",\r\n"), "\\r\\n", "\\r\\n"))
			default:
				enc = append(append([]byte{0, 0, 0}, b...), 0, 0)
			}
			fired("transcoded-" + kind)
			res.Faults = append(res.Faults, "document re-encoded: "+kind)
			both(enc, "re-encoded document ("+kind+")")
			res.Finger = fnv(0, hashString("transcoded"), hashString(kind), hashString(doc))
		case "very-deep":
			// nesting far beyond the generator's trees but well within what the stack can hold
			depth := []int{5000, 9999, 10000, 10001, 10002, 20000, 65536, 100000}[s.Draw("very-deep", 8)]
			var text string
			if objRoot {
				text = strings.Repeat("{\"d\":", depth) + "1" + strings.Repeat("}", depth)
			} else {
				text = strings.Repeat("[", depth) + "1" + strings.Repeat("]", depth)
			}
			fired("very-deep")
			res.Faults = append(res.Faults, fmt.Sprintf("nesting depth %d", depth))
			o := both([]byte(text), fmt.Sprintf("document nested %d levels", depth))
			_ = o
			// cut-off versions of it: still total, exclusive, rejected
			for i := 0; i < 6 && !d.failed; i++ {
				k := 1 + s.Draw("deep-cut", len(text)-1)
				oc := parse(text[:k])
				res.Evals++
				if oc.class() != "error" {
					d.fail("truncated-accepted", fmt.Sprintf("prefix of length %d of a document nested %d levels gives %s (panic %q)", k, depth, oc.class(), short(oc.pmsg, 100)))
				}
			}
			res.Finger = fnv(0, hashString("very-deep"), uint64(depth), uint64(b2i(objRoot)))
		case "many-values":
			// more values in one document than any 16-bit counter or fixed budget holds
			count := []int{65535, 65536, 65537, 70000, 100000, 131073}[s.Draw("many-values", 6)]
			distinct := s.Draw("many-distinct", 2) == 0
			base := s.Draw("many-base", 1<<20)
			if distinct {
				count = []int{300, 1025, 4097, 20000, 70000}[s.Draw("many-distinct-n", 5)]
				res.Counters["probe:many-distinct-tokens"]++
			}
			var sb strings.Builder
			if objRoot {
				sb.WriteString("{\"v\":[")
			} else {
				sb.WriteString("[")
			}
			for i := 0; i < count; i++ {
				if i > 0 {
					sb.WriteByte(',')
				}
				if distinct {
					// every value a different token (what a parser remembers per token — an intern table, a memo of conversions —
					// meets more distinct tokens in one document than it has room for)
					switch i % 3 {
					case 0:
						sb.WriteString(strconv.Itoa(i*7 + base))
					case 1:
						sb.WriteString(strconv.Itoa(i+base) + ".5")
					default:
						sb.WriteString("\"t" + strconv.Itoa(i+base) + "\"")
					}
				} else {
					sb.WriteString([]string{"1", "null", "true", "\"s\"", "2.5"}[i%5])
				}
			}
			if objRoot {
				sb.WriteString("]}")
			} else {
				sb.WriteString("]")
			}
			fired("many-values")
			res.Faults = append(res.Faults, fmt.Sprintf("%d values in one list", count))
			text := sb.String()
			both([]byte(text), fmt.Sprintf("document with %d values", count))
			if !d.failed {
				if oc := parse(text[:len(text)-1-s.Draw("many-cut", 3)]); oc.class() != "error" {
					d.fail("truncated-accepted", fmt.Sprintf("cut-off document with %d values gives %s", count, oc.class()))
				}
			}
			res.Finger = fnv(0, hashString("many-values"), uint64(count), uint64(b2i(objRoot)))
		case "concurrent-readers":
			// several readers, each with its own file, at the same time (scheduling points are whatever synchronisation the
			// reader path contains); every reader must get what ParseObject gives for its own file's bytes
			k := 2 + s.Draw("readers", 4)
			type job struct {
				how  int // 0 ParseFile, 1 ParseObject, 2 ParseList
				path string
				text string // (parsed for comparison only after the concurrent phase: the readers find the parser as cold as the process is)
				want outcome
				got  outcome
			}
			hows := []string{"ParseFile", "ParseObject", "ParseList"}
			jobs := make([]*job, k)
			for i := range jobs {
				how := 0
				if s.Draw("reader-kind", 3) == 0 {
					how = 1 + s.Draw("reader-string-kind", 2)
				}
				_, jd := genDocument(s, how != 2)
				if len(jd) > 20000 {
					jd = "{\"k\":" + strconv.Itoa(i) + "}"
					if how == 2 {
						jd = "[" + strconv.Itoa(i) + "]"
					}
				}
				if s.Draw("reader-damaged", 6) == 0 && len(jd) > 2 {
					jd = jd[:1+s.Draw("reader-cut", len(jd)-1)] // a reader whose input is rejected, next to readers whose input is accepted
				}
				jobs[i] = &job{how: how, text: jd}
				if how == 0 {
					jobs[i].path = d.store([]byte(jd))
				}
			}
			var wg simrt.WaitGroup
			wg.Add(k)
			for _, j := range jobs {
				j := j
				s.Client(func() {
					defer wg.Done()
					simrt.Yield()
					switch j.how {
					case 0:
						j.got = parseFil(j.path)
					case 1:
						j.got = parseObj(j.text)
					default:
						j.got = parseLst(j.text)
					}
				})
			}
			wg.Wait()
			for _, j := range jobs {
				if j.how == 2 {
					j.want = parseLst(j.text)
				} else {
					j.want = parseObj(j.text)
				}
			}
			fired("concurrent-readers")
			res.Faults = append(res.Faults, fmt.Sprintf("%d concurrent parser calls on different inputs", k))
			for i, j := range jobs {
				res.Evals++
				oracle := "not-repeatable"
				if j.how == 0 {
					oracle = "parsefile-differs"
				}
				if !j.got.exclusive() {
					d.fail("not-exclusive", fmt.Sprintf("concurrent reader %d: %s outcome %s (panic %q)", i, hows[j.how], j.got.class(), j.got.pmsg))
				} else if j.got.class() != j.want.class() || j.got.canon != j.want.canon {
					d.fail(oracle, fmt.Sprintf("concurrent reader %d of %d: %s gives %s %s; the same bytes parsed alone afterwards give %s %s", i, k, hows[j.how],
						j.got.class(), short(j.got.canon, 100), j.want.class(), short(j.want.canon, 100)))
				}
			}
			res.Finger = fnv(0, hashString("concurrent-readers"), uint64(k), hashString(doc))
		case "tiny-inputs":
			// every 1-byte input, every 2-byte input over an alphabet of structural and boundary bytes, drawn 3-byte inputs:
			// totality on the shortest inputs (empty, a lone bracket, a lone lead byte, a byte order mark cut short)
			alpha := []byte("[]{}\",:\\ \n0-.e\x00\x7f\x80\xbb\xbf\xc3\xe2\xef\xf0\xff\xfe")
			check := func(in []byte) {
				for _, o := range []outcome{parseObj(string(in)), parseLst(string(in))} {
					res.Evals++
					if !o.exclusive() {
						d.fail("not-exclusive", fmt.Sprintf("input %q gives %s (panic %q)", in, o.class(), o.pmsg))
					}
				}
				if len(in) < 2 || in[0]%4 == 0 {
					of := parseFil(d.store(in))
					res.Evals++
					if !of.exclusive() {
						d.fail("not-exclusive", fmt.Sprintf("ParseFile on a file holding %q gives %s (panic %q)", in, of.class(), of.pmsg))
					}
				}
			}
			check(nil)
			for x := 0; x < 256; x++ {
				check([]byte{byte(x)})
			}
			for _, x := range alpha {
				for _, y := range alpha {
					check([]byte{x, y})
				}
			}
			for i := 0; i < 200; i++ {
				check([]byte{alpha[s.Draw("tiny", len(alpha))], alpha[s.Draw("tiny", len(alpha))], alpha[s.Draw("tiny", len(alpha))]})
			}
			fired("tiny-inputs")
			res.Faults = append(res.Faults, "all 1-byte inputs, 2-byte inputs over a boundary alphabet, 200 drawn 3-byte inputs")
			res.Finger = fnv(0, hashString("tiny"), uint64(s.Draw("tiny-id", 1<<20)))
		case "utf8":
			if len(b) < 3 {
				both(b, "tiny document")
				break
			}
			a := s.Draw("atom", len(utf8Atoms))
			pos := 1 + s.Draw("utf8-pos", len(b)-1) // strictly between the root brackets: 1 .. len-1
			// placement classes: half of the runs aim at a position of a drawn syntactic class
			if cls := s.Draw("utf8-class", 12); cls < 6 {
				cands := placements(b)[cls]
				if len(cands) > 0 {
					pos = cands[s.Draw("utf8-class-pos", len(cands))]
					res.Counters["probe:utf8-placement-"+placementNames[cls]]++
				}
			}
			replace := s.Draw("utf8-replace", 3) == 0 && pos < len(b)-1
			var mutated []byte
			mutated = append(mutated, b[:pos]...)
			mutated = append(mutated, utf8Atoms[a]...)
			if replace {
				mutated = append(mutated, b[pos+1:]...)
			} else {
				mutated = append(mutated, b[pos:]...)
			}
			region := mutated[1 : len(mutated)-1]
			res.Faults = append(res.Faults, fmt.Sprintf("ill-formed UTF-8 %s at offset %d (replace=%v)", utf8AtomNames[a], pos, replace))
			if utf8.Valid(region) {
				// the atom completed a sequence with its neighbours: not ill-formed after all, only totality applies
				both(mutated, "document with bytes that turned out well-formed")
				break
			}
			fired("ill-formed-utf8-" + utf8AtomNames[a])
			inString := strings.Count(doc[:pos], "\"")%2 == 1
			if inString {
				res.Counters["probe:utf8-inside-string-or-key"]++
			} else {
				res.Counters["probe:utf8-between-tokens"]++
			}
			if strings.ContainsAny(doc[1:pos], "[{") {
				res.Counters["probe:corruption-inside-nested-container"]++
			}
			o := both(mutated, "document with ill-formed UTF-8")
			if !d.failed && o.class() != "error" {
				d.fail("ill-formed-utf8-accepted", fmt.Sprintf("document with %s at offset %d gives %s: %s", utf8AtomNames[a], pos, o.class(), short(fmt.Sprintf("%q", mutated), 240)))
			}
			res.Finger = fnv(0, hashString("utf8"), hashString(doc), uint64(a), uint64(pos*8/len(b)))
		case "read-fault":
			if !objRoot {
				// ParseFile reads objects only; use an object document
				_, doc = genDocument(s, true)
				b = []byte(doc)
			}
			var p string
			var kind string
			if d.real {
				switch s.Draw("real-fault", 3) {
				case 0:
					kind = "missing-file"
					p = filepath.Join(realDiskDir(), "does-not-exist.json")
				case 1:
					kind = "path-is-a-directory"
					p = realDiskDir()
				default:
					kind = "path-component-is-a-file"
					f := d.store(b)
					p = filepath.Join(f, "child.json")
				}
			} else {
				p = d.store(b)
				switch s.Draw("sim-fault", 5) {
				case 0:
					kind = "ENOENT"
					disk.Fault(p, simrt.ReadENOENT, 0)
				case 1:
					kind = "EACCES"
					disk.Fault(p, simrt.ReadEACCES, 0)
				case 2:
					kind = "EISDIR"
					disk.Fault(p, simrt.ReadEISDIR, 0)
				case 3:
					kind = "EIO-partial"
					disk.Fault(p, simrt.ReadEIO, s.Draw("eio-at", len(b)+1))
				default:
					kind = "EIO-after-complete-document"
					disk.Fault(p, simrt.ReadEIO, len(b))
					res.Counters["probe:EIO-after-complete-document"]++
				}
			}
			fired("read-" + kind)
			res.Faults = append(res.Faults, "read fault: "+kind)
			of := parseFil(p)
			res.Evals++
			if of.class() != "error" {
				d.fail("unreadable-file-accepted", fmt.Sprintf("ParseFile with read fault %s gives %s (panic %q)", kind, of.class(), of.pmsg))
			}
			res.Finger = fnv(0, hashString("read"), hashString(kind), hashString(doc))
		default:
			// storage corruption: totality, exclusivity, repeatability, ParseFile = ParseObject
			mutated := append([]byte(nil), b...)
			span := func() (int, int) {
				if len(mutated) == 0 {
					return 0, 0
				}
				a := s.Draw("span-at", len(mutated))
				n := 1 + s.Draw("span-len", 16)
				if a+n > len(mutated) {
					n = len(mutated) - a
				}
				return a, n
			}
			switch fault {
			case "bitflip":
				if len(mutated) > 0 {
					k := 1 + s.Draw("flips", 3)
					for i := 0; i < k; i++ {
						mutated[s.Draw("flip-at", len(mutated))] ^= 1 << uint(s.Draw("flip-bit", 8))
					}
				}
			case "garbage-span":
				a, n := span()
				for i := a; i < a+n; i++ {
					mutated[i] = byte(s.Draw("garbage", 256))
				}
			case "dropped-span":
				a, n := span()
				mutated = append(mutated[:a], mutated[a+n:]...)
			case "duplicated-span":
				a, n := span()
				dup := append([]byte(nil), mutated[a:a+n]...)
				mutated = append(mutated[:a+n], append(dup, mutated[a+n:]...)...)
			case "zero-tail":
				if len(mutated) > 0 {
					a := s.Draw("zero-from", len(mutated))
					for i := a; i < len(mutated); i++ {
						mutated[i] = 0
					}
				}
			case "random-bytes":
				n := s.Draw("random-len", 64)
				mutated = mutated[:0]
				alphabet := []byte("[]{}\",:\\ \n0123456789.eE-+truefalsn\x00\x80\xff\xc3\xa9ab")
				for i := 0; i < n; i++ {
					mutated = append(mutated, alphabet[s.Draw("random-byte", len(alphabet))])
				}
			case "decorated":
				pre := []string{"", "\n\n", "garbage ", "// comment\n", "\xef\xbb\xbf", "12 "}[s.Draw("pre", 6)]
				post := []string{"", "\n", " trailing", "]}", "\x00", "{"}[s.Draw("post", 6)]
				mutated = []byte(pre + doc + post)
			}
			fired(fault)
			res.Faults = append(res.Faults, "storage corruption: "+fault)
			both(mutated, "corrupted document ("+fault+")")
			res.Finger = fnv(0, hashString(fault), hashString(string(mutated)))
		}
	})
	res.Steps = out.Steps
	res.Counters["fault-class:"+d.where]++
	if out.Kind != simrt.OutOK {
		res.Failures = append(res.Failures, Failure{Oracle: "harness", Sig: "C04/harness/" + out.Kind.String(), Props: []string{"HARNESS"},
			Msg: "disk run ended with " + out.Kind.String() + ": " + out.PanicMsg, Detail: out.PanicStack})
	}
	return res
}

func init() {
	engines["disk"] = runDisk
}
