module verif.local/harness

go 1.21

require (
	github.com/DanielSvub/anytype v0.0.0
	verif.local/simrt v0.0.0
)

replace verif.local/simrt => ../simrt

// Placeholder for editing and vetting only: every check builds with
// -modfile=<scratch>/harness.mod, which points this at the rewritten scratch copy.
replace github.com/DanielSvub/anytype => /repo
