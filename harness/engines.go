package main

func registerEngines() {
}
