package main

// Tree-form operations (C11; reads are used as observers) and native conversions (C13) of the `hist` engine.

import (
	"fmt"
	"math"
	"strconv"
	"strings"

	at "github.com/DanielSvub/anytype"
)

func signbit(f float64) bool { return math.Signbit(f) }

type seg struct {
	isIdx bool
	key   string
	idx   int
}

func (s seg) String() string {
	if s.isIdx {
		return "#" + strconv.Itoa(s.idx)
	}
	return "." + s.key
}

func renderPath(p []seg) string {
	var b strings.Builder
	for _, s := range p {
		b.WriteString(s.String())
	}
	return b.String()
}

// child looks a segment up in the model; ok is false when the step cannot be taken.
func child(cur *Node, s seg) (MVal, bool) {
	if cur == nil {
		return MVal{}, false
	}
	if s.isIdx {
		if cur.IsObj || s.idx < 0 || s.idx >= len(cur.Elems) {
			return MVal{}, false
		}
		return cur.Elems[s.idx], true
	}
	if !cur.IsObj {
		return MVal{}, false
	}
	v, ok := cur.Fields[s.key]
	return v, ok
}

// genWritePath draws a well-formed path from root: existing, partly existing or new; indices <, = and > n;
// the sigil after a step may disagree with the kind of what is stored there (wrong-kind intermediate).
func (h *Hist) genWritePath(root *Node) []seg {
	var path []seg
	cur := root
	isIdx := !root.IsObj
	depth := 1 + h.d.Draw("path-depth", 4)
	if h.d.Draw("path-depth-tail", 10) == 0 {
		depth = 5 + h.d.Draw("path-depth-long", 6)
		h.counters["probe:tf-long-path"]++
	}
	for lvl := 0; lvl < depth; lvl++ {
		s := seg{isIdx: isIdx}
		if isIdx {
			n := 0
			if cur != nil {
				n = len(cur.Elems)
			}
			switch c := h.d.Draw("path-idx-class", 6); {
			case c <= 2 && n > 0:
				s.idx = h.d.Draw("path-idx", n)
			case c == 3:
				s.idx = n
			case c == 4:
				s.idx = n + 1 + h.d.Draw("path-pad", 3)
				if h.d.Draw("path-pad-far", 4) == 0 {
					s.idx = n + 4 + h.d.Draw("path-pad-far-n", 40) // padding well beyond any small threshold
					h.counters["probe:tf-pad-far"]++
					if h.d.Draw("path-pad-huge", 40) == 0 {
						s.idx = n + []int{1000, 70000}[h.d.Draw("path-pad-huge-n", 2)]
						h.counters["probe:tf-pad-huge"]++
					}
				}
			default:
				if n > 0 {
					s.idx = n - 1
				}
			}
			if s.idx >= n {
				h.counters["probe:tf-pad-or-append"]++
			}
			if s.idx >= 10 {
				h.counters["probe:tf-multi-digit-index"]++
			}
			if lvl >= 2 {
				h.counters["probe:tf-depth>=3"]++
			}
		} else {
			if cur != nil && len(cur.Fields) > 0 && h.d.Draw("path-key-existing", 3) > 0 {
				ks := cur.keys()
				var ok []string
				for _, k := range ks {
					if k != "" && !strings.ContainsAny(k, ".#") {
						ok = append(ok, k)
					}
				}
				if len(ok) > 0 {
					s.key = ok[h.d.Draw("path-key", len(ok))]
				}
			}
			if s.key == "" {
				s.key = plainKeyPool[h.d.Draw("key", len(plainKeyPool))]
			}
		}
		path = append(path, s)
		if lvl == depth-1 {
			break
		}
		// sigil of the next step: mostly what is stored there, sometimes the other kind
		v, ok := child(cur, s)
		nextIdx := h.d.Draw("path-next-kind", 2) == 0
		if ok && v.isRef() && h.d.Draw("path-follow", 4) > 0 {
			nextIdx = v.K == KList
		}
		var next *Node
		if ok && v.isRef() && (v.K == KList) == nextIdx {
			next = v.N
		} else if ok {
			h.counters["probe:tf-wrong-kind-intermediate"]++
		}
		cur, isIdx = next, nextIdx
	}
	return path
}

func opSetTF(h *Hist) {
	root := h.pickAny()
	if root == nil || !h.room() {
		return
	}
	h.begin("SetTF", "C11")
	path := h.genWritePath(root)
	// nodes of the existing tree the walk passes through
	onPath := []*Node{root}
	cur := root
	for i := 0; i < len(path)-1 && cur != nil; i++ {
		v, ok := child(cur, path[i])
		if ok && v.isRef() && (v.K == KList) == path[i+1].isIdx {
			cur = v.N
			onPath = append(onPath, cur)
		} else {
			cur = nil
		}
	}
	// value: scalar or an existing container that reaches no node on the path
	var gv any
	var mv MVal
	for try := 0; ; try++ {
		gv, mv = h.genVal(nil, false)
		if !mv.isRef() {
			break
		}
		r := reach(mv.N)
		bad := false
		for _, p := range onPath {
			if r[p] {
				bad = true
			}
		}
		if !bad {
			break
		}
		if try > 3 {
			m := h.genScalarM()
			gv, mv = m.goValue(), m
			break
		}
	}
	for _, p := range onPath {
		if len(p.Elems) > 2000 {
			return
		}
	}
	ps := renderPath(path)
	var ret any
	p, msg := h.call(func() {
		if root.IsObj {
			ret = root.object().SetTF(ps, gv)
		} else {
			ret = root.list().SetTF(ps, gv)
		}
	})
	h.tracef("%s.SetTF(%q, %s) panicked=%v", root.Name, ps, mv, p)
	for _, x := range onPath {
		h.touch(x)
	}
	if !h.mustNotPanic(p, "well-formed path "+ps+": "+msg) {
		return
	}
	// model: walk, reusing right-kind intermediates and creating the others
	cur = root
	for i, s := range path {
		last := i == len(path)-1
		var store MVal
		if last {
			store = mv
		} else {
			v, ok := child(cur, s)
			if ok && v.isRef() && (v.K == KList) == path[i+1].isIdx {
				cur = v.N
				continue
			}
			nn := h.newPending(!path[i+1].isIdx, "SetTF", pendFresh, nil)
			store = mRef(nn)
		}
		if s.isIdx {
			for len(cur.Elems) < s.idx {
				cur.Elems = append(cur.Elems, mNil())
			}
			if s.idx == len(cur.Elems) {
				cur.Elems = append(cur.Elems, store)
			} else {
				cur.Elems[s.idx] = store
			}
		} else {
			cur.Fields[s.key] = store
		}
		if !last {
			cur = store.N
		}
	}
	h.checkRet(ret, root)
	h.heapCheck()
	if h.dead {
		return
	}
	// afterwards GetTF(p) yields v
	var got any
	var typ at.Type
	pg, gmsg := h.call(func() {
		if root.IsObj {
			got, typ = root.object().GetTF(ps), root.object().TypeOfTF(ps)
		} else {
			got, typ = root.list().GetTF(ps), root.list().TypeOfTF(ps)
		}
	})
	if pg {
		h.fail("readback", "SetTF", []string{"C11"}, fmt.Sprintf("GetTF(%q) after SetTF panicked: %s", ps, gmsg))
		return
	}
	slot := mv
	if mm := h.checkSlot(root, ".GetTF("+ps+")", typ, got, &slot); mm != nil {
		h.fail("readback", "SetTF", []string{"C11"}, "after SetTF: "+mm.msg)
	}
}

func opUnsetTF(h *Hist) {
	root := h.pickAny()
	if root == nil {
		return
	}
	h.begin("UnsetTF", "C11")
	// walk an existing path, possibly ending in a step that does not resolve
	var path []seg
	cur := root
	resolves := true
	depth := 1 + h.d.Draw("path-depth", 4)
	for lvl := 0; lvl < depth; lvl++ {
		s := seg{isIdx: !cur.IsObj}
		corrupt := h.d.Draw("unset-corrupt", 8) == 0
		if s.isIdx {
			n := len(cur.Elems)
			if n == 0 || corrupt {
				s.idx = n + h.d.Draw("unset-beyond", 2)
			} else {
				s.idx = h.d.Draw("path-idx", n)
			}
		} else {
			var ok []string
			for _, k := range cur.keys() {
				if k != "" && !strings.ContainsAny(k, ".#") {
					ok = append(ok, k)
				}
			}
			if len(ok) == 0 || corrupt {
				s.key = "nokey"
			} else {
				s.key = ok[h.d.Draw("path-key", len(ok))]
			}
		}
		path = append(path, s)
		v, ok := child(cur, s)
		if !ok {
			resolves = false
			// sometimes the path goes on after the step that cannot be taken (an intermediate, not the leaf, is missing)
			for extra := h.d.Draw("unset-tail", 3); extra > 0; extra-- {
				t := seg{isIdx: h.d.Draw("unset-tail-kind", 2) == 0, key: plainKeyPool[h.d.Draw("key", len(plainKeyPool))], idx: h.d.Draw("unset-tail-idx", 4)}
				path = append(path, t)
				h.counters["probe:unsettf-missing-intermediate"]++
			}
			break
		}
		if lvl == depth-1 || !v.isRef() {
			break
		}
		if h.d.Draw("unset-stop", 3) == 0 {
			break
		}
		cur = v.N
	}
	// a trailing wrong-kind step makes the path unresolvable as well
	if resolves && h.d.Draw("unset-wrong-kind", 10) == 0 {
		v, _ := child(cur, path[len(path)-1])
		wrong := seg{isIdx: !(v.isRef() && v.K == KList), key: "a"}
		path = append(path, wrong)
		resolves = false
	}
	ps := renderPath(path)
	var ret any
	p, _ := h.call(func() {
		if root.IsObj {
			ret = root.object().UnsetTF(ps)
		} else {
			ret = root.list().UnsetTF(ps)
		}
	})
	h.tracef("%s.UnsetTF(%q) resolves=%v panicked=%v", root.Name, ps, resolves, p)
	if !resolves {
		h.counters["fault:path-does-not-resolve"]++
		// the tree is left unchanged whether or not the call panics
		h.heapCheck()
		return
	}
	if p {
		h.fail("unexpected-panic", "UnsetTF", []string{"C11"}, fmt.Sprintf("%s.UnsetTF(%q) panicked on a resolvable path", root.Name, ps))
		return
	}
	// model: remove exactly the addressed field / element
	cur = root
	for i, s := range path {
		if i == len(path)-1 {
			h.touch(cur)
			if s.isIdx {
				cur.Elems = append(cur.Elems[:s.idx], cur.Elems[s.idx+1:]...)
			} else {
				delete(cur.Fields, s.key)
			}
			break
		}
		v, _ := child(cur, s)
		cur = v.N
	}
	h.checkRet(ret, root)
	h.heapCheck()
}

// opGetTF reads along an existing path and compares with step-by-step navigation (identity for containers).
func opGetTF(h *Hist) {
	root := h.pickAny()
	if root == nil {
		return
	}
	h.begin("GetTF", "C10")
	var path []seg
	cur := root
	var val MVal
	for lvl := 0; lvl < 4; lvl++ {
		s := seg{isIdx: !cur.IsObj}
		if lvl < len(h.repeatPath) {
			// second half of a sandwich: the same path as before, as far as it still resolves
			r := h.repeatPath[lvl]
			if v, ok := child(cur, r); ok && r.isIdx == s.isIdx {
				path = append(path, r)
				val = v
				if !val.isRef() || lvl+1 >= len(h.repeatPath) {
					break
				}
				cur = val.N
				continue
			}
			h.repeatPath = nil
		}
		if s.isIdx {
			if len(cur.Elems) == 0 {
				break
			}
			s.idx = h.d.Draw("path-idx", len(cur.Elems))
		} else {
			var ok []string
			for _, k := range cur.keys() {
				if k != "" && !strings.ContainsAny(k, ".#") {
					ok = append(ok, k)
				}
			}
			if len(ok) == 0 {
				break
			}
			s.key = ok[h.d.Draw("path-key", len(ok))]
		}
		path = append(path, s)
		val, _ = child(cur, s)
		if !val.isRef() || h.d.Draw("get-stop", 3) == 0 {
			break
		}
		cur = val.N
	}
	if len(path) == 0 {
		return
	}
	h.lastPath = path
	ps := renderPath(path)
	var got any
	var typ at.Type
	p, msg := h.call(func() {
		if root.IsObj {
			got, typ = root.object().GetTF(ps), root.object().TypeOfTF(ps)
		} else {
			got, typ = root.list().GetTF(ps), root.list().TypeOfTF(ps)
		}
	})
	h.tracef("%s.GetTF(%q) panicked=%v", root.Name, ps, p)
	own := []string{"C10"}
	if val.isRef() && val.N.Derived > 0 {
		own = []string{"C19"}
		h.counters["probe:derived-retrieved-GetTF"]++
	}
	if k := h.byPtr[ptrOf(got)]; k != nil && k.Derived > 0 && !contains(own, "C19") {
		// what came back is a derived value the model knows (possibly not the one that belongs there): a retrieval path of C19
		own = append([]string{"C19"}, own...)
	}
	if p {
		h.fail("unexpected-panic", "GetTF", own, fmt.Sprintf("GetTF(%q) on a resolvable path panicked: %s", ps, msg))
		return
	}
	slot := val
	if mm := h.checkSlot(root, ".GetTF("+ps+")", typ, got, &slot); mm != nil {
		h.fail("result", "GetTF", own, mm.msg)
		return
	}
	h.heapCheck()
}

// ---- native conversions (C13, C09) ------------------------------------------------------------------

func (h *Hist) newNative(live any, model any, op string, deep bool) *Native {
	nv := &Native{ID: len(h.natives), Live: live, Model: model, Op: op, Deep: deep}
	nv.Name = "G" + strconv.Itoa(nv.ID)
	h.natives = append(h.natives, nv)
	return nv
}

// opExport: NativeSlice / NativeDict (deep, no containers) and Slice / Dict / typed slices (one level).
func opExport(h *Hist) {
	n := h.pickAny()
	if n == nil || len(h.natives) >= 12 {
		return
	}
	var name string
	if n.IsObj {
		name = [...]string{"NativeDict", "Dict", "Dict"}[h.d.Draw("export-kind", 3)]
	} else {
		name = [...]string{"NativeSlice", "Slice", "Slice", "ObjectSlice", "ListSlice", "StringSlice", "BoolSlice", "IntSlice", "FloatSlice"}[h.d.Draw("export-kind", 9)]
	}
	h.begin(name, "C13", "C09")
	h.curOwner = []string{"C13"}
	var live any
	p, msg := h.call(func() {
		if n.IsObj {
			if name == "NativeDict" {
				live = n.object().NativeDict()
			} else {
				live = n.object().Dict()
			}
			return
		}
		l := n.list()
		switch name {
		case "NativeSlice":
			live = l.NativeSlice()
		case "Slice":
			live = l.Slice()
		case "ObjectSlice":
			live = l.ObjectSlice()
		case "ListSlice":
			live = l.ListSlice()
		case "StringSlice":
			live = l.StringSlice()
		case "BoolSlice":
			live = l.BoolSlice()
		case "IntSlice":
			live = l.IntSlice()
		case "FloatSlice":
			live = l.FloatSlice()
		}
	})
	h.tracef("%s.%s()", n.Name, name)
	if !h.mustNotPanic(p, msg) {
		return
	}
	// expected content from the model
	var want any
	derived := false
	switch name {
	case "NativeDict", "NativeSlice":
		want = nativeOf(mRef(n))
		if where := findContainer(live, ""); where != "" {
			h.fail("export-holds-container", name, []string{"C13"}, fmt.Sprintf("%s.%s() holds an anytype container at %s", n.Name, name, where))
			return
		}
	case "Dict":
		m := map[string]any{}
		for k, v := range n.Fields {
			m[k] = v.goValue()
			derived = derived || (v.isRef() && v.N.Derived > 0)
		}
		want = m
	case "Slice":
		s := make([]any, len(n.Elems))
		for i, v := range n.Elems {
			s[i] = v.goValue()
			derived = derived || (v.isRef() && v.N.Derived > 0)
		}
		want = s
	case "ObjectSlice":
		s := []at.Object{}
		for _, v := range n.Elems {
			if v.K == KObj {
				s = append(s, v.N.object())
				derived = derived || v.N.Derived > 0
			}
		}
		want = s
	case "ListSlice":
		s := []at.List{}
		for _, v := range n.Elems {
			if v.K == KList {
				s = append(s, v.N.list())
				derived = derived || v.N.Derived > 0
			}
		}
		want = s
	case "StringSlice":
		s := []string{}
		for _, v := range n.Elems {
			if v.K == KString {
				s = append(s, v.S)
			}
		}
		want = s
	case "BoolSlice":
		s := []bool{}
		for _, v := range n.Elems {
			if v.K == KBool {
				s = append(s, v.B)
			}
		}
		want = s
	case "IntSlice":
		s := []int{}
		for _, v := range n.Elems {
			if v.K == KInt {
				s = append(s, v.I)
			}
		}
		want = s
	case "FloatSlice":
		s := []float64{}
		for _, v := range n.Elems {
			if v.K == KFloat {
				s = append(s, v.F)
			}
		}
		want = s
	}
	if d := nativeDiff(live, want, ""); d != "" {
		own := []string{"C13"}
		if strings.HasSuffix(name, "Slice") && name != "Slice" && name != "NativeSlice" {
			own = []string{"C14"}
		}
		if name == "Slice" {
			own = []string{"C13", "C05"} // Slice is one of C05's observers
		}
		if name == "Dict" {
			own = []string{"C13", "C06"}
		}
		if derived {
			own = []string{"C19"}
		}
		h.fail("result", name, own, fmt.Sprintf("%s.%s() = %s, model says %s: %s", n.Name, name, short(canon(live, nil), 160), short(canon(want, nil), 160), d))
		return
	}
	if derived {
		h.counters["probe:derived-retrieved-"+name]++
	}
	nv := h.newNative(live, copyNative(want), name, name == "NativeDict" || name == "NativeSlice")
	rel := "native:" + name
	for _, x := range sortedNodes(reach(n)) {
		if x == n || nv.Deep {
			h.relate(-nv.ID-1, x.ID, rel)
		}
	}
	// other Go values derived from the same container
	for _, o := range h.natives {
		if o != nv {
			if _, ok := h.rel[[2]int{-o.ID - 1, n.ID}]; ok {
				h.relate(-nv.ID-1, -o.ID-1, rel)
			}
		}
	}
	h.aliased = true
	h.trace[len(h.trace)-1] += " -> " + nv.Name + " = " + short(canon(live, nil), 100)
	h.heapCheck()
}

// opMutateNative modifies a Go value the harness holds; no container may change.
func opMutateNative(h *Hist) {
	if len(h.natives) == 0 {
		return
	}
	nv := h.natives[h.d.Draw("pick-native", len(h.natives))]
	if nv.Frozen {
		return
	}
	h.begin("native-mutation", "C13")
	m := natMutation{action: h.d.Draw("nat-action", 3), key: keyPool[h.d.Draw("key", len(keyPool))]}
	for i, d := 0, h.d.Draw("nat-depth", 3); i <= d; i++ {
		m.path = append(m.path, h.d.Draw("nat-pick", 8))
	}
	if h.d.Draw("nat-val-tree", 4) == 0 {
		m.val = genNativeTree(h.d, 1, 2)
	} else {
		m.val = genScalar(h.d)
	}
	nv.Live = applyNat(nv.Live, m, 0)
	nv.Model = applyNat(nv.Model, m, 0)
	h.dirty[-nv.ID-1] = true
	if h.aliased {
		h.mutAfterAlias = true
	}
	h.counters["probe:native-mutated"]++
	h.tracef("%s (%s) modified by the harness: %s", nv.Name, nv.Op, m)
	h.heapCheck()
}

// opImport: NewListFrom / NewObjectFrom of a Go value that stays in the harness's hands.
func opImport(h *Hist) {
	if !h.room() || len(h.natives) >= 12 {
		return
	}
	flavour := h.d.Draw("import-flavour", 16)
	isObj := flavour >= 8
	name := "NewListFrom"
	if isObj {
		name = "NewObjectFrom"
	}
	h.begin(name, "C13")
	if h.prop == "C05" {
		h.curOwner = []string{"C05"}
	} else if h.prop == "C06" {
		h.curOwner = []string{"C06"}
	}
	if h.d.Draw("import-poisoned", 14) == 0 {
		// a conversion that cannot succeed (a value of an unsupported type somewhere inside): whether and how it fails is not
		// C13's business, but whatever the attempt leaves behind in the library must not show in any later conversion
		poison := rejectedValue(h.d)
		var tree any = []any{1, map[string]any{"deep": []any{"x", poison}}, "tail"}
		switch h.d.Draw("poison-shape", 3) {
		case 0:
			tree = []any{poison}
		case 1:
			tree = []any{[]any{[]any{map[string]any{"k": poison}}}}
		}
		// a caller that retries a failing conversion: 1 .. 5000 attempts in a row (whatever one failed attempt leaks adds up)
		attempts := 1
		if h.d.Draw("poison-retries", 3) == 0 {
			attempts = []int{3, 40, 300, 600, 1500, 5000}[h.d.Draw("poison-retries-n", 6)]
			h.counters["probe:failing-import-retried"]++
		}
		p := false
		for a := 0; a < attempts; a++ {
			p, _ = h.call(func() {
				if isObj {
					at.NewObjectFrom(map[string]any{"a": 1, "t": tree})
				} else {
					at.NewListFrom(tree)
				}
			})
		}
		h.tracef("%s of a Go value holding an unsupported value, %d attempt(s): panicked=%v", name, attempts, p)
		h.counters["probe:import-of-unsupported-value"]++
		h.heapCheck()
		return
	}
	var src any
	var reuse *Native
	// sometimes import a Go value that already is a heap citizen (an earlier export or source)
	if h.d.Draw("import-existing", 3) == 0 {
		for _, nv := range h.natives {
			switch nv.Live.(type) {
			case []any:
				if !isObj && findContainerDerived(h, nv.Live) == "" {
					reuse = nv
				}
			case map[string]any:
				if isObj && findContainerDerived(h, nv.Live) == "" {
					reuse = nv
				}
			}
		}
	}
	objs := func() []*Node {
		var out []*Node
		for _, x := range h.bound(true, true, false) {
			if h.derivedOK || x.Derived == 0 {
				out = append(out, x)
			}
		}
		return out
	}
	lists := func() []*Node {
		var out []*Node
		for _, x := range h.bound(false, false, false) {
			if h.derivedOK || x.Derived == 0 {
				out = append(out, x)
			}
		}
		return out
	}
	treeAliased = false
	width := h.tail("import-width", 5, 60)
	if h.d.Draw("import-huge", 60) == 0 {
		width = []int{511, 513, 1003, 1100}[h.d.Draw("import-huge-n", 4)]
		h.counters["probe:import-huge"]++
	}
	if reuse != nil {
		src = reuse.Live
	} else {
		switch flavour % 8 {
		case 0, 7:
			if isObj {
				m := map[string]any{}
				for i := 0; i < width; i++ {
					m[keyPool[h.d.Draw("key", len(keyPool))]] = genNativeTree(h.d, 2, 3)
				}
				src = m
			} else {
				s := make([]any, width)
				for i := range s {
					s[i] = genNativeTree(h.d, 2, 3)
				}
				src = s
			}
		case 1:
			os := objs()
			if isObj {
				m := map[string]at.Object{}
				for i := 0; i < width && len(os) > 0; i++ {
					m[keyPool[h.d.Draw("key", len(keyPool))]] = os[h.d.Draw("pick-obj", len(os))].object()
				}
				src = m
			} else {
				s := []at.Object{}
				for i := 0; i < width && len(os) > 0; i++ {
					s = append(s, os[h.d.Draw("pick-obj", len(os))].object())
				}
				src = s
			}
		case 2:
			ls := lists()
			if isObj {
				m := map[string]at.List{}
				for i := 0; i < width && len(ls) > 0; i++ {
					m[keyPool[h.d.Draw("key", len(keyPool))]] = ls[h.d.Draw("pick-list", len(ls))].list()
				}
				src = m
			} else {
				s := []at.List{}
				for i := 0; i < width && len(ls) > 0; i++ {
					s = append(s, ls[h.d.Draw("pick-list", len(ls))].list())
				}
				src = s
			}
		case 3:
			if isObj {
				m := map[string]string{}
				for i := 0; i < width; i++ {
					m[keyPool[h.d.Draw("key", len(keyPool))]] = stringPool[h.d.Draw("string", len(stringPool))]
				}
				src = m
			} else {
				s := make([]string, width)
				for i := range s {
					s[i] = stringPool[h.d.Draw("string", len(stringPool))]
				}
				src = s
			}
		case 4:
			if isObj {
				m := map[string]bool{}
				for i := 0; i < width; i++ {
					m[keyPool[h.d.Draw("key", len(keyPool))]] = h.d.Draw("bool", 2) == 1
				}
				src = m
			} else {
				s := make([]bool, width)
				for i := range s {
					s[i] = h.d.Draw("bool", 2) == 1
				}
				src = s
			}
		case 5:
			if isObj {
				m := map[string]int{}
				for i := 0; i < width; i++ {
					m[keyPool[h.d.Draw("key", len(keyPool))]] = intPool[h.d.Draw("int", len(intPool))]
				}
				src = m
			} else {
				s := make([]int, width)
				for i := range s {
					s[i] = intPool[h.d.Draw("int", len(intPool))]
				}
				src = s
			}
		case 6:
			if isObj {
				m := map[string]float64{}
				for i := 0; i < width; i++ {
					m[keyPool[h.d.Draw("key", len(keyPool))]] = floatPool[h.d.Draw("float", len(floatPool))]
				}
				src = m
			} else {
				s := make([]float64, width)
				for i := range s {
					s[i] = floatPool[h.d.Draw("float", len(floatPool))]
				}
				src = s
			}
		}
	}
	var c any
	p, msg := h.call(func() {
		if isObj {
			c = at.NewObjectFrom(src)
		} else {
			c = at.NewListFrom(src)
		}
	})
	h.tracef("%s(%s)", name, short(canon(src, nil), 120))
	if !h.mustNotPanic(p, msg) {
		return
	}
	mv := h.modelOfNative(src, name)
	r := mv.N
	if !h.bindResult(r, c, h.curOwner) {
		return
	}
	nv := reuse
	if nv == nil {
		nv = h.newNative(src, copyNative(src), name+" source", false)
		nv.Frozen = treeAliased
		if treeAliased {
			h.counters["probe:import-of-a-go-value-sharing-structure-inside"]++
		}
	}
	for _, x := range sortedNodes(reach(r)) {
		if x.Group == h.group {
			h.relate(-nv.ID-1, x.ID, "native:"+name)
		}
	}
	// round trip: exporting the new container reproduces the source
	if h.prop == "C13" {
		var back any
		pb, _ := h.call(func() {
			if isObj {
				back = c.(at.Object).NativeDict()
			} else {
				back = c.(at.List).NativeSlice()
			}
		})
		want := nativeOf(mv)
		if pb {
			h.fail("round-trip", name, []string{"C13"}, "exporting the imported container panicked")
			return
		}
		if d := nativeDiff(back, want, ""); d != "" {
			h.fail("round-trip", name, []string{"C13"}, fmt.Sprintf("%s(s).Native…() does not reproduce s: %s", name, d))
			return
		}
	}
	h.aliased = true
	h.trace[len(h.trace)-1] += " -> " + r.Name + " (source kept as " + nv.Name + ")"
	h.heapCheck()
}

func findContainerDerived(h *Hist, v any) string {
	if h.derivedOK {
		return ""
	}
	var walk func(v any) string
	walk = func(v any) string {
		switch x := v.(type) {
		case at.List, at.Object:
			if k := h.byPtr[ptrOf(x)]; k != nil && k.Derived > 0 {
				return k.Name
			}
		case []any:
			for _, e := range x {
				if s := walk(e); s != "" {
					return s
				}
			}
		case map[string]any:
			for _, e := range x {
				if s := walk(e); s != "" {
					return s
				}
			}
		}
		return ""
	}
	return walk(v)
}
