package main

// Reference model and heap binder of the `hist` engine (DESIGN §2).
//
// Model values are scalars (kind-exact) or references to nodes with identity.
// The heap is the set of all nodes ever created in a run; after every step every
// bound container, reachable or not, must show exactly what its node predicts
// (the whole-heap invariant), nested containers being the identical bound values.

import (
	"fmt"
	"math"
	"reflect"
	"sort"
	"strconv"
	"strings"

	at "github.com/DanielSvub/anytype"
)

type Kind uint8

const (
	KNil Kind = iota
	KBool
	KInt
	KFloat
	KString
	KList
	KObj
)

var kindNames = [...]string{"nil", "bool", "int", "float", "string", "list", "object"}

func (k Kind) String() string { return kindNames[k] }

func (k Kind) atType() at.Type {
	return [...]at.Type{at.TypeNil, at.TypeBool, at.TypeInt, at.TypeFloat, at.TypeString, at.TypeList, at.TypeObject}[k]
}

// MVal is a model value.
type MVal struct {
	K Kind
	B bool
	I int
	F float64
	S string
	N *Node
}

func mNil() MVal            { return MVal{K: KNil} }
func mBool(b bool) MVal     { return MVal{K: KBool, B: b} }
func mInt(i int) MVal       { return MVal{K: KInt, I: i} }
func mFloat(f float64) MVal { return MVal{K: KFloat, F: f} }
func mString(s string) MVal { return MVal{K: KString, S: s} }
func mRef(n *Node) MVal {
	if n.IsObj {
		return MVal{K: KObj, N: n}
	}
	return MVal{K: KList, N: n}
}

func (v MVal) isRef() bool { return v.K == KList || v.K == KObj }

// same is kind-exact model equality; containers by identity.
func (v MVal) same(w MVal) bool {
	if v.K != w.K {
		return false
	}
	switch v.K {
	case KNil:
		return true
	case KBool:
		return v.B == w.B
	case KInt:
		return v.I == w.I
	case KFloat:
		return math.Float64bits(v.F) == math.Float64bits(w.F)
	case KString:
		return v.S == w.S
	}
	return v.N == w.N
}

// goEq is what Go's == on interface values says (Contains, IndexOf, KeyOf): +0 == -0.
func (v MVal) goEq(w MVal) bool {
	if v.K == KFloat && w.K == KFloat {
		return v.F == w.F
	}
	return v.same(w)
}

func (v MVal) String() string {
	switch v.K {
	case KNil:
		return "nil"
	case KBool:
		return strconv.FormatBool(v.B)
	case KInt:
		return strconv.Itoa(v.I)
	case KFloat:
		s := strconv.FormatFloat(v.F, 'g', -1, 64)
		if !strings.ContainsAny(s, ".eIN") {
			s += ".0"
		}
		if v.F == 0 && math.Signbit(v.F) {
			s = "-0.0"
		}
		return s
	case KString:
		return strconv.Quote(v.S)
	}
	if v.N == nil {
		return "<nil-ref>"
	}
	return v.N.Name
}

// goValue returns the Go value that stands for v in calls to the library.
func (v MVal) goValue() any {
	switch v.K {
	case KNil:
		return nil
	case KBool:
		return v.B
	case KInt:
		return v.I
	case KFloat:
		return v.F
	case KString:
		return v.S
	}
	return v.N.Impl
}

// pending says how a node that the model predicts but has not yet seen must relate to what exists.
type pending struct {
	mode  int // pendFresh: identical to no bound container; pendEither: identical to src or fresh
	src   *Node
	group int // nodes created by the same operation may alias each other when they copy the same source
}

const (
	pendFresh = iota
	pendEither
)

// Node is a model container with identity.
type Node struct {
	ID      int
	Name    string
	IsObj   bool
	Elems   []MVal
	Fields  map[string]MVal
	Impl    any // at.List or at.Object (the registered outer value for derived structures)
	Pend    *pending
	Derived int    // 0 plain, 1 embeds a List/Object, 2 embeds a derived list
	Op      string // operation that created it
	Group   int
	Src     *Node // the node this one was created as a copy of (kept after binding)
}

func (n *Node) list() at.List     { return n.Impl.(at.List) }
func (n *Node) object() at.Object { return n.Impl.(at.Object) }

func (n *Node) keys() []string {
	ks := make([]string, 0, len(n.Fields))
	for k := range n.Fields {
		ks = append(ks, k)
	}
	sort.Strings(ks)
	return ks
}

func (n *Node) render(depth int) string {
	if depth > 3 {
		return n.Name + "…"
	}
	var b strings.Builder
	b.WriteString(n.Name)
	if n.IsObj {
		b.WriteString("{")
		for i, k := range n.keys() {
			if i > 0 {
				b.WriteString(",")
			}
			v := n.Fields[k]
			b.WriteString(strconv.Quote(k) + ":")
			if v.isRef() {
				b.WriteString(v.N.render(depth + 1))
			} else {
				b.WriteString(v.String())
			}
		}
		b.WriteString("}")
	} else {
		b.WriteString("[")
		for i, v := range n.Elems {
			if i > 0 {
				b.WriteString(",")
			}
			if v.isRef() {
				b.WriteString(v.N.render(depth + 1))
			} else {
				b.WriteString(v.String())
			}
		}
		b.WriteString("]")
	}
	return b.String()
}

// Native is a plain Go value (slice or map tree) that the harness holds and may modify:
// an export of a container or the source a container was built from.
type Native struct {
	ID     int
	Name   string
	Live   any // what the harness holds (the very value the library returned / was given)
	Model  any // independent deep copy, modified in step with Live by harness mutations only
	Op     string
	Deep   bool // produced by NativeSlice/NativeDict: must not contain containers
	Frozen bool // shares structure inside itself: watched, never modified by the harness
}

// Hist is the state of one history run.
type obsKey struct {
	id  int
	op  string
	arg string
}

type Hist struct {
	d               drawer
	prop            string
	nodes           []*Node
	cloneTags       map[int][]int
	cloneCalls      int
	sparse          int // >1: whole-heap comparison only after every sparse-th operation
	unchecked       int
	uncheckedOwners []string
	final           bool
	force           *Node // picks go to this container (sandwich)
	forceNeedle     *MVal
	hintIndex       int
	recentTrees     []any          // Go trees passed as arguments earlier in this history
	prevDirty       map[int]bool   // what the latest mutating operation was allowed to change
	lastTouch       map[int]int    // step of the latest operation allowed to change a container
	lastPass        map[obsKey]int // step at which an observation of a container was last found right
	obsArg          string         // argument digest of the observation in progress (the needle of a search)
	twinOK          bool           // a fresh container with the same content answered the failing observation correctly
	lastPath        []seg          // path of the latest GetTF
	repeatPath      []seg
	natives         []*Native
	byPtr           map[uintptr]*Node
	rel             map[[2]int]string // relation between two heap citizens (node IDs; natives use negative IDs)
	fails           []Failure
	trace           []string
	step            int
	dead            bool
	counters        map[string]int
	opSeq           uint64
	dirty           map[int]bool // citizens the current step may legitimately change
	curOp           string
	curOwner        []string
	group           int
	evals           int
	aliased         bool
	mutAfterAlias   bool
	nextID          int
	derivedOK       bool
	maxSlots        int
	maxNodes        int
	big             bool
	last            *Node // container the previous step worked on (pick locality)
	chain           int   // > 0 while an operation issues a follow-up operation of its own kind
	sizeClass       int   // 0 small, 1 big (48 slots), 2 huge list first, 3 deep chain first
}

func (h *Hist) tracef(format string, a ...any) {
	h.trace = append(h.trace, fmt.Sprintf("%d: ", h.step)+fmt.Sprintf(format, a...))
}

func (h *Hist) fail(oracle, where string, owners []string, msg string) {
	if h.dead {
		return
	}
	h.dead = true
	if sub := h.last; sub != nil && len(h.dirty) == 0 && !h.prevDirty[sub.ID] && (oracle == "result" || oracle == "unexpected-panic" || oracle == "panic-missing") &&
		(h.lastPass[obsKey{sub.ID, h.curOp, h.obsArg}] > h.lastTouch[sub.ID] || h.twinOK) {
		// (only when the same observation of the same container was right at an earlier step and the container itself has not
		// been modified since, or when a brand-new container with the same content gets the right answer: otherwise the observer
		// may simply be wrong about this content, which is not C08's or C09's business)
		// an observer is wrong about a container that the latest mutation did not touch: when what was touched is a clone, a
		// derived result or a native export of it (or the other way round), the independence clause of C08 / C09 / C13 is what
		// broke — the observer merely shows it (e.g. a summary or a listing shared between the two and updated through one)
		ids := make([]int, 0, len(h.prevDirty))
		for d := range h.prevDirty {
			ids = append(ids, d)
		}
		sort.Ints(ids)
		add := func(p string) {
			if !contains(owners, p) {
				owners = append(append([]string(nil), owners...), p)
			}
		}
		for _, d := range ids {
			if h.cloneRelated(sub.ID, d) {
				add("C08")
				continue
			}
			if rel, ok := h.rel[[2]int{sub.ID, d}]; ok {
				switch {
				case strings.HasPrefix(rel, "derived"):
					add("C09")
				case strings.HasPrefix(rel, "native"):
					add("C13")
				}
			}
		}
	}
	h.fails = append(h.fails, Failure{Oracle: oracle, Sig: owners[0] + "/" + oracle + "/" + where, Props: owners, Msg: msg, Step: h.step})
	h.trace = append(h.trace, fmt.Sprintf("%d: !! %s [%s]: %s", h.step, oracle, strings.Join(owners, ","), msg))
}

func (h *Hist) newNode(isObj bool, op string) *Node {
	n := &Node{ID: h.nextID, IsObj: isObj, Op: op, Group: h.group}
	h.nextID++
	if isObj {
		n.Name = "O" + strconv.Itoa(n.ID)
		n.Fields = map[string]MVal{}
	} else {
		n.Name = "L" + strconv.Itoa(n.ID)
	}
	h.nodes = append(h.nodes, n)
	return n
}

func (h *Hist) newPending(isObj bool, op string, mode int, src *Node) *Node {
	n := h.newNode(isObj, op)
	n.Pend = &pending{mode: mode, src: src, group: h.group}
	n.Src = src
	return n
}

// bind attaches an implementation container to a node.
func (h *Hist) bind(n *Node, impl any) {
	n.Impl = impl
	n.Pend = nil
	h.byPtr[ptrOf(impl)] = n
}

func (h *Hist) relate(a, b int, what string) {
	if a == b {
		return
	}
	if _, ok := h.rel[[2]int{a, b}]; !ok {
		h.rel[[2]int{a, b}] = what
		h.rel[[2]int{b, a}] = what
	}
}

// cloneRelated: one of the two is reachable from a Clone result and the other from that call's source.
func (h *Hist) cloneRelated(a, b int) bool {
	if a == b {
		return false
	}
	for _, t := range h.cloneTags[a] {
		for _, u := range h.cloneTags[b] {
			if t^1 == u {
				return true
			}
		}
	}
	return false
}

// reach returns the nodes reachable from n (n included).
func reach(n *Node) map[*Node]bool {
	seen := map[*Node]bool{}
	var walk func(x *Node)
	walk = func(x *Node) {
		if seen[x] {
			return
		}
		seen[x] = true
		for _, v := range x.Elems {
			if v.isRef() {
				walk(v.N)
			}
		}
		for _, v := range x.Fields {
			if v.isRef() {
				walk(v.N)
			}
		}
	}
	walk(n)
	return seen
}

func sortedNodes(m map[*Node]bool) []*Node {
	out := make([]*Node, 0, len(m))
	for n := range m {
		out = append(out, n)
	}
	sort.Slice(out, func(i, j int) bool { return out[i].ID < out[j].ID })
	return out
}

// cloneShape fills dst (a pending node) with the content its source has now: scalars by value,
// nested containers as further pending nodes of the same mode.
func (h *Hist) cloneShape(dst, src *Node, mode int) {
	if src.IsObj {
		for _, k := range src.keys() {
			v := src.Fields[k]
			if v.isRef() {
				c := h.newPending(v.N.IsObj, dst.Op, mode, v.N)
				h.cloneShape(c, v.N, mode)
				v = mRef(c)
			}
			dst.Fields[k] = v
		}
		return
	}
	dst.Elems = make([]MVal, len(src.Elems))
	for i, v := range src.Elems {
		if v.isRef() {
			c := h.newPending(v.N.IsObj, dst.Op, mode, v.N)
			h.cloneShape(c, v.N, mode)
			v = mRef(c)
		}
		dst.Elems[i] = v
	}
}

// ---- verification ---------------------------------------------------------------------------------

type mismatch struct {
	node *Node
	msg  string
	// identity: the mismatch is about which container sits in a slot (not about scalar content)
	identity bool
	// derived: the slot should hold a derived structure (a user type embedding List/Object): C19's retrieval clause
	derived bool
}

// resolve handles a slot whose model value refers to a pending node: decide what the observed
// container is, bind it, and make the slot refer to the right node.
func (h *Hist) resolve(slot *MVal, got any) *mismatch {
	p := slot.N
	pd := p.Pend
	known := h.byPtr[ptrOf(got)]
	if known != nil {
		if pd.mode == pendEither && known == pd.src {
			h.dropNode(p)
			slot.N = known
			return nil
		}
		if known.Group == pd.group && known.Pend == nil && known != pd.src && known.Op == p.Op && known.Src == pd.src {
			// aliasing inside the result of one operation (e.g. one copy standing for two occurrences): adopted
			h.dropNode(p)
			slot.N = known
			return nil
		}
		return &mismatch{node: p, identity: true, msg: fmt.Sprintf("expected a fresh container (from %s of %s) but found the existing %s", p.Op, pd.src.Name, known.Name)}
	}
	h.bind(p, got)
	return nil
}

// dropNode forgets a pending node that turned out to be an existing container, with the pending nodes below it.
func (h *Hist) dropNode(p *Node) {
	for _, v := range p.Elems {
		if v.isRef() && v.N.Pend != nil {
			h.dropNode(v.N)
		}
	}
	for _, v := range p.Fields {
		if v.isRef() && v.N.Pend != nil {
			h.dropNode(v.N)
		}
	}
	for i, x := range h.nodes {
		if x == p {
			h.nodes = append(h.nodes[:i], h.nodes[i+1:]...)
			return
		}
	}
}

func typeOfGo(v any) string {
	switch v.(type) {
	case nil:
		return "nil"
	case bool:
		return "bool"
	case int:
		return "int"
	case float64:
		return "float64"
	case string:
		return "string"
	case at.List:
		return "List"
	case at.Object:
		return "Object"
	}
	return fmt.Sprintf("%T", v)
}

func showGo(v any) string {
	switch x := v.(type) {
	case at.List, at.Object:
		return typeOfGo(v) + short(canon(x, nil), 80)
	}
	return short(canon(v, nil), 80)
}

// checkSlot compares one observed (type, value) with the model slot. It may bind pending nodes.
func (h *Hist) checkSlot(owner *Node, where string, typ at.Type, got any, slot *MVal) *mismatch {
	if typ != slot.K.atType() {
		return &mismatch{node: owner, msg: fmt.Sprintf("%s%s has type %d, model says %s (%s)", owner.Name, where, typ, slot.K, slot)}
	}
	switch slot.K {
	case KNil:
		if got != nil {
			return &mismatch{node: owner, msg: fmt.Sprintf("%s%s = %s, model says nil", owner.Name, where, showGo(got))}
		}
	case KBool:
		if b, ok := got.(bool); !ok || b != slot.B {
			return &mismatch{node: owner, msg: fmt.Sprintf("%s%s = %s, model says %s", owner.Name, where, showGo(got), slot)}
		}
	case KInt:
		if i, ok := got.(int); !ok || i != slot.I {
			return &mismatch{node: owner, msg: fmt.Sprintf("%s%s = %s, model says %s", owner.Name, where, showGo(got), slot)}
		}
	case KFloat:
		if f, ok := got.(float64); !ok || math.Float64bits(f) != math.Float64bits(slot.F) {
			return &mismatch{node: owner, msg: fmt.Sprintf("%s%s = %s, model says %s", owner.Name, where, showGo(got), slot)}
		}
	case KString:
		if s, ok := got.(string); !ok || s != slot.S {
			return &mismatch{node: owner, msg: fmt.Sprintf("%s%s = %s, model says %s", owner.Name, where, showGo(got), slot)}
		}
	case KList, KObj:
		if slot.K == KList {
			if _, ok := got.(at.List); !ok {
				return &mismatch{node: owner, msg: fmt.Sprintf("%s%s = %s, model says list %s", owner.Name, where, showGo(got), slot)}
			}
		} else if _, ok := got.(at.Object); !ok {
			return &mismatch{node: owner, msg: fmt.Sprintf("%s%s = %s, model says object %s", owner.Name, where, showGo(got), slot)}
		}
		if reflect.ValueOf(got).IsNil() {
			return &mismatch{node: owner, msg: fmt.Sprintf("%s%s holds a nil container", owner.Name, where)}
		}
		if slot.N.Pend != nil {
			if mm := h.resolve(slot, got); mm != nil {
				mm.msg = fmt.Sprintf("%s%s: %s", owner.Name, where, mm.msg)
				return mm
			}
			return nil
		}
		if got != slot.N.Impl {
			other := "an unknown container"
			if k := h.byPtr[ptrOf(got)]; k != nil {
				other = k.Name
			}
			return &mismatch{node: owner, identity: true, derived: slot.N.Derived > 0, msg: fmt.Sprintf("%s%s holds %s %s, model says the identical %s", owner.Name, where, other, showGo(got), slot.N.Name)}
		}
	}
	return nil
}

// checkNode compares a bound node with its implementation, one level deep (nested containers by identity).
func (h *Hist) checkNode(n *Node) *mismatch {
	h.evals++
	if n.IsObj {
		o := n.object()
		if c := o.Count(); c != len(n.Fields) {
			return &mismatch{node: n, msg: fmt.Sprintf("%s.Count() = %d, model has %d fields %v; impl %s", n.Name, c, len(n.Fields), n.keys(), short(canon(o, nil), 200))}
		}
		if e := o.Empty(); e != (len(n.Fields) == 0) {
			return &mismatch{node: n, msg: fmt.Sprintf("%s.Empty() = %v with %d fields", n.Name, e, len(n.Fields))}
		}
		for _, k := range n.keys() {
			v := n.Fields[k]
			if !o.KeyExists(k) {
				return &mismatch{node: n, msg: fmt.Sprintf("%s lacks key %q, model says %s", n.Name, k, v)}
			}
			mm := h.checkSlot(n, "["+strconv.Quote(k)+"]", o.TypeOf(k), o.Get(k), &v)
			n.Fields[k] = v
			if mm != nil {
				return mm
			}
		}
		if o.Ego() != n.Impl {
			return &mismatch{node: n, identity: true, msg: n.Name + ".Ego() is not the registered value"}
		}
		return nil
	}
	l := n.list()
	if c := l.Count(); c != len(n.Elems) {
		return &mismatch{node: n, msg: fmt.Sprintf("%s.Count() = %d, model has %d elements: impl %s, model %s", n.Name, c, len(n.Elems), short(canon(l, nil), 200), n.render(0))}
	}
	if e := l.Empty(); e != (len(n.Elems) == 0) {
		return &mismatch{node: n, msg: fmt.Sprintf("%s.Empty() = %v with %d elements", n.Name, e, len(n.Elems))}
	}
	for i := range n.Elems {
		if mm := h.checkSlot(n, "["+strconv.Itoa(i)+"]", l.TypeOf(i), l.Get(i), &n.Elems[i]); mm != nil {
			return mm
		}
	}
	if t := l.TypeOf(len(n.Elems)); t != at.TypeUndefined {
		return &mismatch{node: n, msg: fmt.Sprintf("%s.TypeOf(%d) past the end = %d", n.Name, len(n.Elems), t)}
	}
	if l.Ego() != n.Impl {
		return &mismatch{node: n, identity: true, msg: n.Name + ".Ego() is not the registered value"}
	}
	return nil
}

// bindPending reads exactly the slots in which the model expects a container it has not seen yet (created by the
// operation's own conversion of a Go value, a copy made by Clone/Merge …) and binds them. It is what remains of the
// whole-heap comparison on the steps a sparse-read history skips: identities must be known before the next operation.
func (h *Hist) bindPending() {
	for _, n := range append([]*Node(nil), h.nodes...) {
		if n.Impl == nil || h.dead {
			continue
		}
		report := func(mm *mismatch) {
			if h.dirty[n.ID] {
				h.fail("result", h.curOp, h.curOwner, "after "+h.curOp+": "+mm.msg)
			} else {
				owners, rel := h.frameOwners(n.ID)
				h.fail("frame", rel, owners, fmt.Sprintf("%s changed a container it must not touch: %s (relation %s)", h.curOp, mm.msg, rel))
			}
		}
		if n.IsObj {
			for _, k := range n.keys() {
				v := n.Fields[k]
				if (v.K != KList && v.K != KObj) || v.N == nil || v.N.Pend == nil {
					continue
				}
				o := n.object()
				var typ at.Type
				var got any
				if p, msg := try(func() { typ, got = o.TypeOf(k), o.Get(k) }); p {
					report(&mismatch{node: n, msg: fmt.Sprintf("%s[%q] cannot be read: %s", n.Name, k, msg)})
					return
				}
				mm := h.checkSlot(n, "["+strconv.Quote(k)+"]", typ, got, &v)
				n.Fields[k] = v
				if mm != nil {
					report(mm)
					return
				}
			}
			continue
		}
		for i := range n.Elems {
			v := &n.Elems[i]
			if (v.K != KList && v.K != KObj) || v.N == nil || v.N.Pend == nil {
				continue
			}
			l := n.list()
			var typ at.Type
			var got any
			if p, msg := try(func() { typ, got = l.TypeOf(i), l.Get(i) }); p {
				report(&mismatch{node: n, msg: fmt.Sprintf("%s[%d] cannot be read: %s", n.Name, i, msg)})
				return
			}
			if mm := h.checkSlot(n, "["+strconv.Itoa(i)+"]", typ, got, v); mm != nil {
				report(mm)
				return
			}
		}
	}
}

// bindResult checks that got is a fresh container and binds it to the (pending) node n, then
// verifies its content recursively (binding nested pending nodes on the way).
func (h *Hist) bindResult(n *Node, got any, owners []string) bool {
	if got == nil || reflect.ValueOf(got).IsNil() {
		h.fail("result", h.curOp, owners, h.curOp+" returned a nil container")
		return false
	}
	if k := h.byPtr[ptrOf(got)]; k != nil {
		own := owners
		if h.isDeriving(h.curOp) {
			own = []string{"C09"}
			switch h.curOp {
			case "Clone":
				own = []string{"C08"}
			case "Concat", "SubList":
				// (as for frame violations: the sequence model of C05 / the map model of C06 has these operations produce a new
				// value, so a program that goes on to modify the "result" no longer behaves like the model)
				own = append(own, "C05")
			case "Merge", "Pluck", "Keys", "Values":
				own = append(own, "C06")
			}
		}
		h.fail("result-not-fresh", h.curOp, own, fmt.Sprintf("%s returned the existing container %s instead of a new one", h.curOp, k.Name))
		return false
	}
	h.bind(n, got)
	return h.verifyFrom(n, owners)
}

// verifyFrom checks n and everything newly bound below it.
func (h *Hist) verifyFrom(n *Node, owners []string) bool {
	todo := []*Node{n}
	seen := map[*Node]bool{}
	for len(todo) > 0 {
		x := todo[0]
		todo = todo[1:]
		if seen[x] || x.Impl == nil {
			continue
		}
		seen[x] = true
		if mm := h.checkNode(x); mm != nil {
			own := owners
			if mm.identity && h.curOp == "Clone" {
				own = []string{"C08"}
			}
			if mm.derived && h.curOp != "Clone" {
				own = append([]string{"C19"}, own...)
			}
			h.fail("result", h.curOp, own, "result of "+h.curOp+": "+mm.msg)
			return false
		}
		for _, v := range x.Elems {
			if v.isRef() && v.N.Group == h.group {
				todo = append(todo, v.N)
			}
		}
		for _, k := range x.keys() {
			if v := x.Fields[k]; v.isRef() && v.N.Group == h.group {
				todo = append(todo, v.N)
			}
		}
	}
	return true
}

var derivingOps = map[string]bool{
	"Concat": true, "SubList": true, "Filter": true, "FilterObjects": true, "FilterLists": true, "FilterStrings": true,
	"FilterInts": true, "FilterFloats": true, "Map": true, "MapValues": true, "MapObjects": true, "MapLists": true,
	"MapStrings": true, "MapBools": true, "MapInts": true, "MapFloats": true, "MapAsync": true, "Merge": true, "Pluck": true,
	"Keys": true, "Values": true, "Slice": true, "Dict": true, "ObjectSlice": true, "ListSlice": true, "StringSlice": true,
	"BoolSlice": true, "IntSlice": true, "FloatSlice": true, "Reduce": true, "ReduceStrings": true, "ReduceInts": true,
	"ReduceFloats": true, "String": true, "FormatString": true, "Equals": true, "Contains": true, "IndexOf": true, "Clone": true,
	"NativeSlice": true, "NativeDict": true,
}

func (h *Hist) isDeriving(op string) bool {
	if i := strings.Index(op, "."); i >= 0 {
		op = op[i+1:]
	}
	return derivingOps[op]
}

// heapCheck is the whole-heap invariant after a step. Mismatches on citizens the step was allowed to
// change are failures of the operation itself; on any other citizen they are frame violations,
// attributed by how that citizen is related to the ones the step touched.
func (h *Hist) heapCheck() {
	if h.dead {
		return
	}
	if h.sparse > 1 && !h.final {
		// sparse reads: the whole-heap comparison runs only after every h.sparse-th operation, so that the library also
		// goes through sequences of mutations with nobody reading in between (lazily built or invalidated internal state
		// is otherwise always rebuilt right after every single step)
		h.unchecked++
		for _, o := range h.curOwner {
			if !contains(h.uncheckedOwners, o) {
				h.uncheckedOwners = append(h.uncheckedOwners, o)
			}
		}
		if h.unchecked < h.sparse {
			h.bindPending()
			return
		}
	}
	if h.unchecked > 0 {
		own := append([]string(nil), h.curOwner...)
		for _, o := range h.uncheckedOwners {
			if !contains(own, o) {
				own = append(own, o)
			}
		}
		h.curOwner = own
		h.unchecked, h.uncheckedOwners = 0, nil
	}
	for _, n := range append([]*Node(nil), h.nodes...) {
		if n.Impl == nil {
			continue
		}
		mm := h.checkNode(n)
		if mm == nil {
			continue
		}
		if h.dirty[n.ID] {
			own := h.curOwner
			if mm.derived {
				own = append([]string{"C19"}, own...)
			}
			h.fail("result", h.curOp, own, "after "+h.curOp+": "+mm.msg)
		} else {
			owners, rel := h.frameOwners(n.ID)
			h.fail("frame", rel, owners, fmt.Sprintf("%s changed a container it must not touch: %s (relation %s)", h.curOp, mm.msg, rel))
		}
		return
	}
	if h.last != nil && len(h.dirty) == 0 && !h.dead {
		h.lastPass[obsKey{h.last.ID, h.curOp, h.obsArg}] = h.step
	}
	for _, nv := range h.natives {
		h.evals++
		if msg := nativeDiff(nv.Live, nv.Model, ""); msg != "" {
			if h.dirty[-nv.ID-1] {
				h.fail("result", h.curOp, h.curOwner, "after "+h.curOp+": native "+nv.Name+": "+msg)
			} else {
				owners, rel := h.frameOwners(-nv.ID - 1)
				if !contains(owners, "C13") {
					owners = append([]string{"C13"}, owners...)
				}
				h.fail("frame", rel, owners, fmt.Sprintf("%s changed the Go value %s (%s) it must not touch: %s", h.curOp, nv.Name, nv.Op, msg))
			}
			return
		}
	}
}

func contains(s []string, x string) bool {
	for _, y := range s {
		if y == x {
			return true
		}
	}
	return false
}

// frameOwners decides under which properties a frame violation on citizen id is reported.
func (h *Hist) frameOwners(id int) ([]string, string) {
	ids := make([]int, 0, len(h.dirty))
	for d := range h.dirty {
		ids = append(ids, d)
	}
	sort.Ints(ids)
	for _, d := range ids {
		if h.cloneRelated(id, d) {
			return []string{"C08"}, "clone"
		}
		rel, ok := h.rel[[2]int{id, d}]
		if !ok {
			continue
		}
		switch {
		case strings.HasPrefix(rel, "clone"):
			return []string{"C08"}, rel
		case strings.HasPrefix(rel, "native"):
			own := []string{"C13"}
			if strings.Contains(rel, "Slice") || strings.Contains(rel, "Dict") {
				own = append(own, "C09")
			}
			return own, rel
		case strings.HasPrefix(rel, "derived"):
			op := strings.TrimPrefix(rel, "derived:")
			own := []string{"C09"}
			switch op {
			case "Concat", "SubList":
				own = append(own, "C05")
			case "Merge", "Pluck", "Keys", "Values":
				own = append(own, "C06")
			}
			return own, rel
		}
	}
	own := append([]string(nil), h.curOwner...)
	if h.isDeriving(h.curOp) && !contains(own, "C09") {
		// a deriving operation changed something it had no business with: the receiver/argument clause of C09
		own = append([]string{"C09"}, own...)
	}
	return own, "unrelated:" + h.curOp
}

// adopt rebuilds the model content of n from what the implementation shows (used where the
// properties leave the outcome open). Unknown containers become new nodes.
func (h *Hist) adopt(n *Node) {
	conv := func(v any) MVal {
		switch x := v.(type) {
		case nil:
			return mNil()
		case bool:
			return mBool(x)
		case int:
			return mInt(x)
		case float64:
			return mFloat(x)
		case string:
			return mString(x)
		case at.List, at.Object:
			if k := h.byPtr[ptrOf(x)]; k != nil {
				return mRef(k)
			}
			_, isObj := x.(at.Object)
			c := h.newNode(isObj, "adopted")
			h.bind(c, x)
			h.adopt(c)
			return mRef(c)
		}
		return mNil()
	}
	if n.IsObj {
		n.Fields = map[string]MVal{}
		d := n.object().Dict()
		ks := make([]string, 0, len(d))
		for k := range d {
			ks = append(ks, k)
		}
		sort.Strings(ks)
		for _, k := range ks {
			n.Fields[k] = conv(d[k])
		}
		return
	}
	l := n.list()
	n.Elems = make([]MVal, l.Count())
	for i := range n.Elems {
		n.Elems[i] = conv(l.Get(i))
	}
}

// snapshot is a canonical rendering of the whole model heap (for run fingerprints).
func (h *Hist) snapshot() uint64 {
	x := uint64(0)
	for _, n := range h.nodes {
		x = fnv(x, hashString(n.render(1)))
	}
	for _, nv := range h.natives {
		x = fnv(x, hashString(canon(nv.Model, nil)))
	}
	return x
}
