package main

// Plain Go values as heap citizens (property C13; also the Go-native results of C09).

import (
	"fmt"
	"math"
	"reflect"
	"sort"
	"strconv"

	at "github.com/DanielSvub/anytype"
)

// copyNative makes an independent copy of a Go tree of slices and maps; containers stay the identical values.
func copyNative(v any) any {
	switch x := v.(type) {
	case []any:
		out := make([]any, len(x))
		for i, e := range x {
			out[i] = copyNative(e)
		}
		return out
	case map[string]any:
		out := make(map[string]any, len(x))
		for k, e := range x {
			out[k] = copyNative(e)
		}
		return out
	case []at.Object:
		return append([]at.Object{}, x...)
	case []at.List:
		return append([]at.List{}, x...)
	case []string:
		return append([]string{}, x...)
	case []bool:
		return append([]bool{}, x...)
	case []int:
		return append([]int{}, x...)
	case []float64:
		return append([]float64{}, x...)
	case map[string]at.Object:
		out := map[string]at.Object{}
		for k, e := range x {
			out[k] = e
		}
		return out
	case map[string]at.List:
		out := map[string]at.List{}
		for k, e := range x {
			out[k] = e
		}
		return out
	case map[string]string:
		out := map[string]string{}
		for k, e := range x {
			out[k] = e
		}
		return out
	case map[string]bool:
		out := map[string]bool{}
		for k, e := range x {
			out[k] = e
		}
		return out
	case map[string]int:
		out := map[string]int{}
		for k, e := range x {
			out[k] = e
		}
		return out
	case map[string]float64:
		out := map[string]float64{}
		for k, e := range x {
			out[k] = e
		}
		return out
	}
	return v
}

// generic views of the typed flavours
func asSlice(v any) ([]any, bool) {
	switch x := v.(type) {
	case []any:
		return x, true
	case nil:
		return nil, false
	}
	rv := reflect.ValueOf(v)
	if rv.Kind() != reflect.Slice {
		return nil, false
	}
	out := make([]any, rv.Len())
	for i := range out {
		out[i] = rv.Index(i).Interface()
	}
	return out, true
}

func asMap(v any) (map[string]any, bool) {
	switch x := v.(type) {
	case map[string]any:
		return x, true
	case nil:
		return nil, false
	}
	rv := reflect.ValueOf(v)
	if rv.Kind() != reflect.Map || rv.Type().Key().Kind() != reflect.String {
		return nil, false
	}
	out := map[string]any{}
	it := rv.MapRange()
	for it.Next() {
		out[it.Key().String()] = it.Value().Interface()
	}
	return out, true
}

// nativeDiff compares two Go trees: nil and empty slices/maps are equal, scalar kinds are exact
// (float bits), containers by identity. It returns "" when equal.
func nativeDiff(a, b any, path string) string {
	if as, ok := asSlice(a); ok {
		bs, ok2 := asSlice(b)
		if !ok2 {
			return fmt.Sprintf("%s: %T vs %T", path, a, b)
		}
		if reflect.TypeOf(a) != reflect.TypeOf(b) {
			return fmt.Sprintf("%s: slice type %T vs %T", path, a, b)
		}
		if len(as) != len(bs) {
			return fmt.Sprintf("%s: length %d, expected %d (%s vs %s)", path, len(as), len(bs), short(canon(a, nil), 120), short(canon(b, nil), 120))
		}
		for i := range as {
			if d := nativeDiff(as[i], bs[i], path+"["+strconv.Itoa(i)+"]"); d != "" {
				return d
			}
		}
		return ""
	}
	if am, ok := asMap(a); ok {
		bm, ok2 := asMap(b)
		if !ok2 {
			return fmt.Sprintf("%s: %T vs %T", path, a, b)
		}
		if reflect.TypeOf(a) != reflect.TypeOf(b) {
			return fmt.Sprintf("%s: map type %T vs %T", path, a, b)
		}
		if len(am) != len(bm) {
			return fmt.Sprintf("%s: %d keys, expected %d", path, len(am), len(bm))
		}
		keys := make([]string, 0, len(am))
		for k := range am {
			keys = append(keys, k)
		}
		sort.Strings(keys)
		for _, k := range keys {
			bv, ok := bm[k]
			if !ok {
				return fmt.Sprintf("%s: unexpected key %q", path, k)
			}
			if d := nativeDiff(am[k], bv, path+"["+strconv.Quote(k)+"]"); d != "" {
				return d
			}
		}
		return ""
	}
	switch x := a.(type) {
	case nil:
		if b != nil {
			// a nil slice/map on one side and an empty one on the other are equal
			if bs, ok := asSlice(b); ok && len(bs) == 0 {
				return ""
			}
			if bm, ok := asMap(b); ok && len(bm) == 0 {
				return ""
			}
			return fmt.Sprintf("%s: nil, expected %s", path, showGo(b))
		}
		return ""
	case float64:
		y, ok := b.(float64)
		if !ok || math.Float64bits(x) != math.Float64bits(y) {
			return fmt.Sprintf("%s: %s, expected %s", path, showGo(a), showGo(b))
		}
		return ""
	case at.List, at.Object:
		if a != b {
			return fmt.Sprintf("%s: a different container than expected", path)
		}
		return ""
	}
	if reflect.TypeOf(a) != reflect.TypeOf(b) || a != b {
		return fmt.Sprintf("%s: %s, expected %s", path, showGo(a), showGo(b))
	}
	return ""
}

// findContainer reports where a Go tree holds a List or Object (NativeSlice/NativeDict must hold none).
func findContainer(v any, path string) string {
	switch x := v.(type) {
	case at.List, at.Object:
		return path
	case []any:
		for i, e := range x {
			if p := findContainer(e, path+"["+strconv.Itoa(i)+"]"); p != "" {
				return p
			}
		}
	case map[string]any:
		keys := make([]string, 0, len(x))
		for k := range x {
			keys = append(keys, k)
		}
		sort.Strings(keys)
		for _, k := range keys {
			if p := findContainer(x[k], path+"["+strconv.Quote(k)+"]"); p != "" {
				return p
			}
		}
	}
	return ""
}

// nativeOf renders the model content of a node as the plain Go tree NativeSlice/NativeDict must produce.
func nativeOf(v MVal) any {
	if !v.isRef() {
		return v.goValue()
	}
	n := v.N
	if n.IsObj {
		out := map[string]any{}
		for k, e := range n.Fields {
			out[k] = nativeOf(e)
		}
		return out
	}
	out := make([]any, len(n.Elems))
	for i, e := range n.Elems {
		out[i] = nativeOf(e)
	}
	return out
}

// treeAliased is set when the last generated tree shares structure inside itself; such a value is never modified by the
// harness afterwards (its independent model copy would not share the same structure), only watched.
var treeAliased bool

// genNativeTree draws a Go tree of []any / map[string]any / scalars.
func genNativeTree(d drawer, depth, width int) any {
	if depth > 0 {
		switch d.Draw("nat-kind", 5) {
		case 0:
			n := d.Draw("nat-len", width+1)
			out := make([]any, n)
			for i := range out {
				out[i] = genNativeTree(d, depth-1, width)
			}
			// Go values may share structure without being cyclic: the same sub-tree twice, a slice that holds a prefix of itself
			if n >= 3 {
				switch d.Draw("nat-alias", 12) {
				case 0:
					out[n-1] = out[0]
					treeAliased = true
				case 1:
					out[n-1] = out[: n-1 : n-1]
					treeAliased = true
				}
			}
			return out
		case 1:
			n := d.Draw("nat-len", width+1)
			out := map[string]any{}
			for i := 0; i < n; i++ {
				out[keyPool[d.Draw("key", len(keyPool))]] = genNativeTree(d, depth-1, width)
			}
			return out
		}
	}
	return genScalar(d)
}

// natMutation is a modification of a Go tree, drawn once and applied to the live value and to the model copy.
type natMutation struct {
	path   []int // child picks on the way down (index modulo the number of children, keys in sorted order)
	action int   // 0 set slot, 1 append / add key, 2 remove last / delete key
	key    string
	val    any
}

func (m natMutation) String() string {
	return fmt.Sprintf("path=%v action=%s key=%q val=%s", m.path, [...]string{"set", "grow", "shrink"}[m.action], m.key, short(canon(m.val, nil), 60))
}

// applyNat applies m to v and returns the new value of v (append may reallocate).
func applyNat(v any, m natMutation, depth int) any {
	if depth < len(m.path) {
		switch x := v.(type) {
		case []any:
			if len(x) > 0 {
				i := m.path[depth] % len(x)
				switch x[i].(type) {
				case []any, map[string]any:
					x[i] = applyNat(x[i], m, depth+1)
					return x
				}
			}
		case map[string]any:
			if len(x) > 0 {
				keys := make([]string, 0, len(x))
				for k := range x {
					keys = append(keys, k)
				}
				sort.Strings(keys)
				k := keys[m.path[depth]%len(keys)]
				switch x[k].(type) {
				case []any, map[string]any:
					x[k] = applyNat(x[k], m, depth+1)
					return x
				}
			}
		}
	}
	pick := 0
	if depth < len(m.path) {
		pick = m.path[depth]
	}
	val := copyNative(m.val)
	rv := reflect.ValueOf(v)
	switch rv.Kind() {
	case reflect.Slice:
		et := rv.Type().Elem()
		ev := reflect.Zero(et)
		if val != nil && reflect.TypeOf(val).AssignableTo(et) {
			ev = reflect.ValueOf(val)
		} else if et.Kind() == reflect.Interface && val != nil {
			ev = reflect.ValueOf(val)
		} else {
			ev = zeroLike(et, pick)
		}
		switch m.action {
		case 0:
			if rv.Len() > 0 {
				rv.Index(pick % rv.Len()).Set(ev)
			}
			return v
		case 1:
			return reflect.Append(rv, ev).Interface()
		default:
			if rv.Len() > 0 {
				return rv.Slice(0, rv.Len()-1).Interface()
			}
			return v
		}
	case reflect.Map:
		et := rv.Type().Elem()
		ev := reflect.Zero(et)
		if val != nil && reflect.TypeOf(val).AssignableTo(et) {
			ev = reflect.ValueOf(val)
		} else if et.Kind() == reflect.Interface && val != nil {
			ev = reflect.ValueOf(val)
		} else {
			ev = zeroLike(et, pick)
		}
		keys := rv.MapKeys()
		sort.Slice(keys, func(i, j int) bool { return keys[i].String() < keys[j].String() })
		switch m.action {
		case 0:
			if len(keys) > 0 {
				rv.SetMapIndex(keys[pick%len(keys)], ev)
			}
		case 1:
			rv.SetMapIndex(reflect.ValueOf(m.key), ev)
		default:
			if len(keys) > 0 {
				rv.SetMapIndex(keys[pick%len(keys)], reflect.Value{})
			}
		}
		return v
	}
	return v
}

// zeroLike makes a recognisable non-default value of a typed element (so that a shared slot is seen to change).
func zeroLike(t reflect.Type, pick int) reflect.Value {
	switch t.Kind() {
	case reflect.String:
		return reflect.ValueOf("mut" + strconv.Itoa(pick))
	case reflect.Bool:
		return reflect.ValueOf(pick%2 == 0)
	case reflect.Int:
		return reflect.ValueOf(7000 + pick)
	case reflect.Float64:
		return reflect.ValueOf(float64(pick) + 0.125)
	}
	return reflect.Zero(t)
}
