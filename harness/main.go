// harness drives the simulated runs: `run` explores a range of run indices of one
// VERIF_SEED, `replay` re-executes a recorded draw list, `shrink` minimises one.
package main

import (
	"encoding/json"
	"flag"
	"fmt"
	"os"
	"os/exec"
	"sort"
	"strconv"
	"strings"
	"time"

	"verif.local/simrt"
)

// Failure is one oracle failure, classified before it is reported (DESIGN §2 "Attribution").
type Failure struct {
	Oracle string   `json:"oracle"`
	Sig    string   `json:"signature"`
	Props  []string `json:"attributed"`
	Msg    string   `json:"message"`
	Step   int      `json:"step,omitempty"`
	Detail string   `json:"detail,omitempty"`
}

func (f Failure) concerns(prop string) bool {
	for _, p := range f.Props {
		if p == prop {
			return true
		}
	}
	return false
}

// sigFor returns the signature as seen from property prop (the signature is prefixed by the owning property).
func (f Failure) sigFor(prop string) string {
	if i := strings.Index(f.Sig, "/"); i >= 0 {
		return prop + f.Sig[i:]
	}
	return prop + "/" + f.Sig
}

type RunResult struct {
	Failures   []Failure
	Finger     uint64
	NonTrivial bool
	Evals      int
	Steps      int
	Counters   map[string]int
	Trace      []string
	Schedule   []string
	Faults     []string
	Config     map[string]any
}

type Options struct {
	Prop      string
	Engine    string
	Tier      string
	KeepTrace bool
	Scenario  int
}

type ViolationRec struct {
	Property   string            `json:"property"`
	Engine     string            `json:"engine"`
	Tier       string            `json:"tier"`
	VerifSeed  uint64            `json:"verif_seed"`
	Run        int               `json:"run"`
	Config     map[string]any    `json:"config,omitempty"`
	Draws      []int             `json:"draws"`
	Trace      []string          `json:"trace,omitempty"`
	Schedule   []string          `json:"schedule,omitempty"`
	Faults     []string          `json:"faults,omitempty"`
	Violation  Failure           `json:"violation"`
	Signature  string            `json:"signature"`
	Shrunk     bool              `json:"shrunk"`
	FromSeed   bool              `json:"from_seed,omitempty"`
	RunFrom    *int              `json:"run_from,omitempty"` // range replay: runs run_from..run of the seed in one process (state carried between runs)
	WorkerFrom int               `json:"worker_from"`
	Env        map[string]string `json:"env,omitempty"`        // environment swarm of the worker that found it (part of the configuration)
	Scenario   *int              `json:"scenario,omitempty"`   // the worker was restricted to one scenario / fault class (part of the configuration)
	RaceBuild  bool              `json:"race_build,omitempty"` // found by the race-instrumented binary: replay with it
	ShrinkLog  string            `json:"shrink_log,omitempty"`
}

func (r ViolationRec) scenario() int {
	if r.Scenario != nil {
		return *r.Scenario
	}
	return -1
}

type Sample struct {
	Run      int            `json:"run"`
	Config   map[string]any `json:"config,omitempty"`
	Trace    []string       `json:"trace"`
	Schedule []string       `json:"schedule,omitempty"`
	Faults   []string       `json:"faults,omitempty"`
}

type WorkerOut struct {
	Property    string            `json:"property"`
	Engine      string            `json:"engine"`
	From        int               `json:"from"`
	To          int               `json:"to"`
	Runs        int               `json:"runs"`
	Evals       int               `json:"evals"`
	Steps       int               `json:"steps"`
	Fingers     []uint64          `json:"fingers"`
	Counters    map[string]int    `json:"counters"`
	Violations  []ViolationRec    `json:"violations"`
	Others      map[string]int    `json:"others"`
	OtherMsgs   map[string]string `json:"other_msgs"`
	Samples     []Sample          `json:"samples"`
	Uncovered   []string          `json:"uncovered"`
	Trouble     []string          `json:"trouble"`
	WallS       float64           `json:"wall_s"`
	RaceBuild   bool              `json:"race_build"`
	DrawDigest  uint64            `json:"draw_digest"` // hash of every decision of every run, in order
	TraceDigest uint64            `json:"trace_digest"`
}

var engines = map[string]func(*simrt.Chooser, Options) RunResult{}

func engineFor(prop string) string {
	switch prop {
	case "C15":
		return "async"
	case "C04":
		return "disk"
	}
	return "hist"
}

func main() {
	if len(os.Args) < 2 {
		fmt.Fprintln(os.Stderr, "usage: harness run|replay|shrink ...")
		os.Exit(2)
	}
	engines["async"] = runAsync
	registerEngines()
	// environment swarm: a busy process (parked goroutines); applies to run, replay and shrink alike
	if n, _ := strconv.Atoi(os.Getenv("VERIF_IDLE_GOROUTINES")); n > 0 {
		park := make(chan struct{})
		for i := 0; i < n; i++ {
			go func() { <-park }()
		}
	}
	switch os.Args[1] {
	case "run":
		cmdRun(os.Args[2:])
	case "replay":
		cmdReplay(os.Args[2:])
	case "shrink":
		cmdShrink(os.Args[2:])
	case "methods":
		for _, m := range uncoveredMethods() {
			fmt.Println("uncovered:", m)
		}
	default:
		fmt.Fprintln(os.Stderr, "unknown command", os.Args[1])
		os.Exit(2)
	}
}

// ---- race log ----------------------------------------------------------------------------

type raceLog struct {
	path string
	off  int64
}

func newRaceLog() *raceLog {
	p := os.Getenv("VERIF_RACELOG")
	if p == "" {
		return nil
	}
	return &raceLog{path: fmt.Sprintf("%s.%d", p, os.Getpid())}
}

func (r *raceLog) fresh() string {
	if r == nil {
		return ""
	}
	b, err := os.ReadFile(r.path)
	if err != nil || int64(len(b)) <= r.off {
		return ""
	}
	s := string(b[r.off:])
	r.off = int64(len(b))
	return s
}

// classifyRace decides whether a ThreadSanitizer report involves the library under test.
func classifyRace(report string) (inLibrary bool, where string) {
	libDir := os.Getenv("VERIF_LIBDIR")
	if libDir == "" {
		libDir = "/anytype/"
	}
	var first string
	for _, line := range strings.Split(report, "\n") {
		t := strings.TrimSpace(line)
		if strings.Contains(t, libDir) && strings.Contains(t, ".go:") {
			inLibrary = true
			if first == "" {
				// "/tmp/x/anytype/list_impl.go:438 +0x1c4"
				f := t[strings.LastIndex(t, "/")+1:]
				if i := strings.Index(f, " "); i > 0 {
					f = f[:i]
				}
				first = f
			}
		}
	}
	return inLibrary, first
}

// raceFuncs extracts the library functions named in a report (stable across line-number changes).
func raceFuncs(report string) string {
	seen := map[string]bool{}
	var out []string
	lines := strings.Split(report, "\n")
	for i, line := range lines {
		t := strings.TrimSpace(line)
		if strings.HasPrefix(t, "github.com/DanielSvub/anytype.") && i+1 < len(lines) {
			name := strings.TrimPrefix(t, "github.com/DanielSvub/anytype.")
			if j := strings.Index(name, "()"); j >= 0 {
				name = name[:j]
			}
			name = strings.NewReplacer("(*", "", ")", "").Replace(name)
			if k := strings.Index(name, ".func"); k >= 0 {
				name = name[:k]
			}
			if !seen[name] {
				seen[name] = true
				out = append(out, name)
			}
		}
	}
	sort.Strings(out)
	if len(out) > 3 {
		out = out[:3]
	}
	return strings.Join(out, "+")
}

// ---- one run -------------------------------------------------------------------------------

func oneRun(ch *simrt.Chooser, opt Options, rl *raceLog) (RunResult, []string) {
	var trouble []string
	before := simrt.RaceErrors()
	res := engines[opt.Engine](ch, opt)
	if simrt.RaceErrors() > before {
		rep := rl.fresh()
		lib, where := classifyRace(rep)
		if lib {
			scen := ""
			if res.Config != nil {
				scen, _ = res.Config["scenario"].(string)
			}
			_ = scen
			owner := "C15"
			if opt.Engine == "disk" {
				// two clients that parse their own files share nothing a caller can see: a race between them is in the parser's own state
				owner = "C04"
			}
			res.Failures = append(res.Failures, Failure{Oracle: "race", Sig: owner + "/race/" + raceFuncs(rep), Props: []string{owner},
				Msg: "data race in the library's own memory accesses (first library frame " + where + ")", Detail: short(rep, 6000)})
		} else if len(res.Failures) == 0 {
			// a report between harness frames only, in a run that is otherwise clean, is a harness problem;
			// in a run that already failed it is a consequence of the library's broken synchronisation
			trouble = append(trouble, "race report without a library frame (harness bug?): "+short(rep, 3000))
		}
	}
	return res, trouble
}

func cmdRun(args []string) {
	fs := flag.NewFlagSet("run", flag.ExitOnError)
	prop := fs.String("prop", "", "property id")
	tier := fs.String("tier", "quick", "tier")
	seed := fs.Uint64("seed", 1, "VERIF_SEED")
	from := fs.Int("from", 0, "first run index")
	to := fs.Int("to", 100, "one past the last run index")
	out := fs.String("out", "", "worker result file")
	scen := fs.Int("scenario", -1, "restrict the worker to one scenario / fault class (index)")
	class := fs.String("class", "", "restrict the worker to one fault class (disk engine, by name)")
	budget := fs.Float64("budget", 0, "stop after this many seconds (0 = none)")
	fs.Parse(args)
	opt := Options{Prop: *prop, Engine: engineFor(*prop), Tier: *tier, Scenario: *scen}
	if *class != "" {
		opt.Scenario = -1
		for i, f := range diskFaults {
			if f == *class {
				opt.Scenario = i
			}
		}
		if opt.Scenario < 0 || opt.Engine != "disk" {
			fmt.Fprintln(os.Stderr, "unknown fault class", *class)
			os.Exit(2)
		}
	}
	if engines[opt.Engine] == nil {
		fmt.Fprintln(os.Stderr, "no engine for", *prop)
		os.Exit(2)
	}
	rl := newRaceLog()
	w := WorkerOut{Property: *prop, Engine: opt.Engine, From: *from, To: *to, Counters: map[string]int{},
		Others: map[string]int{}, OtherMsgs: map[string]string{}, RaceBuild: simrt.RaceEnabled}
	if opt.Engine == "async" {
		w.Uncovered = uncoveredMethods()
	}
	if *prop == "C19" {
		w.Uncovered = uncoveredFluent()
	}
	start := time.Now()
	var progress *os.File
	if *out != "" {
		progress, _ = os.Create(*out + ".progress")
	}
	fingers := map[uint64]bool{}
	sigs := map[string]bool{}
	failingRuns := 0
	for i := *from; i < *to; i++ {
		if *budget > 0 && time.Since(start).Seconds() > *budget {
			w.To = i
			break
		}
		if progress != nil {
			progress.WriteAt([]byte(fmt.Sprintf("%012d\n", i)), 0)
		}
		ch := simrt.NewChooser(simrt.Mix(*seed, uint64(i)))
		res, trouble := oneRun(ch, opt, rl)
		w.Trouble = append(w.Trouble, trouble...)
		w.Runs++
		for _, d := range ch.Rec {
			w.DrawDigest = fnv(w.DrawDigest, uint64(d.N), uint64(d.V), hashString(d.Label))
		}
		for _, t := range res.Trace {
			w.TraceDigest = fnv(w.TraceDigest, hashString(t))
		}
		w.TraceDigest = fnv(w.TraceDigest, res.Finger, uint64(res.Steps), uint64(res.Evals))
		w.Evals += res.Evals
		w.Steps += res.Steps
		for k, v := range res.Counters {
			w.Counters[k] += v
		}
		if res.NonTrivial {
			fingers[res.Finger] = true
			w.Counters["nontrivial-runs"]++
		}
		failed := false
		for _, f := range res.Failures {
			if f.concerns("HARNESS") {
				w.Trouble = append(w.Trouble, f.Msg+" "+short(f.Detail, 1500))
				continue
			}
			if !f.concerns(*prop) {
				w.Others[f.Sig]++
				if _, ok := w.OtherMsgs[f.Sig]; !ok {
					w.OtherMsgs[f.Sig] = f.Msg
				}
				continue
			}
			failed = true
			sig := f.sigFor(*prop)
			w.Counters["violating-failures"]++
			if sigs[sig] || len(w.Violations) >= 4 {
				continue
			}
			sigs[sig] = true
			// re-run with full tracing to produce a readable record
			rec := ViolationRec{Property: *prop, Engine: opt.Engine, Tier: *tier, VerifSeed: *seed, Run: i, WorkerFrom: *from, Env: swarmEnv(),
				Draws: ch.Values(), Violation: f, Signature: sig, Config: res.Config, Trace: res.Trace, Faults: res.Faults, RaceBuild: simrt.RaceEnabled && opt.Engine != "async"}
			if opt.Scenario >= 0 {
				sc := opt.Scenario
				rec.Scenario = &sc
			}
			w.Violations = append(w.Violations, rec)
		}
		if failed {
			failingRuns++
		}
		if len(w.Samples) < 3 && res.NonTrivial && len(res.Trace) > 0 && i%7 == 0 {
			w.Samples = append(w.Samples, Sample{Run: i, Config: res.Config, Trace: clip(res.Trace, 40), Faults: clip(res.Faults, 10)})
		}
		if failingRuns >= 25 {
			w.To = i + 1
			break
		}
	}
	for f := range fingers {
		w.Fingers = append(w.Fingers, f)
	}
	sort.Slice(w.Fingers, func(a, b int) bool { return w.Fingers[a] < w.Fingers[b] })
	w.WallS = time.Since(start).Seconds()
	b, _ := json.Marshal(w)
	if *out != "" {
		if err := os.WriteFile(*out, b, 0o644); err != nil {
			fmt.Fprintln(os.Stderr, err)
			os.Exit(2)
		}
	} else {
		os.Stdout.Write(b)
	}
}

func clip(s []string, n int) []string {
	if len(s) <= n {
		return s
	}
	out := append([]string(nil), s[:n]...)
	return append(out, fmt.Sprintf("… %d more", len(s)-n))
}

// ---- replay ---------------------------------------------------------------------------------

func loadRec(path string) ViolationRec {
	b, err := os.ReadFile(path)
	if err != nil {
		fmt.Fprintln(os.Stderr, err)
		os.Exit(2)
	}
	var rec ViolationRec
	if err := json.Unmarshal(b, &rec); err != nil {
		fmt.Fprintln(os.Stderr, "bad replay file:", err)
		os.Exit(2)
	}
	return rec
}

// replayOnce executes the draws in this process. It returns the failure matching the signature
// (or, with anySig, the first failure that concerns the property), and the full result.
func replayOnce(rec ViolationRec, draws []int, rl *raceLog, anySig bool) (*Failure, RunResult, *simrt.Chooser) {
	ch := simrt.NewReplay(draws)
	if draws == nil && rec.FromSeed {
		// a run that never returned has no recorded draws: it is identified by (VERIF_SEED, run index)
		ch = simrt.NewChooser(simrt.Mix(rec.VerifSeed, uint64(rec.Run)))
	}
	opt := Options{Prop: rec.Property, Engine: rec.Engine, Tier: rec.Tier, KeepTrace: true, Scenario: rec.scenario()}
	res, _ := oneRun(ch, opt, rl)
	var first *Failure
	for i := range res.Failures {
		f := &res.Failures[i]
		if !f.concerns(rec.Property) {
			continue
		}
		if sig := f.sigFor(rec.Property); sig == rec.Signature || (strings.Contains(sig, "/race/") && strings.Contains(rec.Signature, "/race/")) {
			// which of several racing access pairs ThreadSanitizer reports first depends on what the process
			// reported before; any library race on the same schedule reproduces a recorded race
			return f, res, ch
		}
		if first == nil {
			first = f
		}
	}
	if anySig {
		return first, res, ch
	}
	return nil, res, ch
}

func cmdReplay(args []string) {
	fs := flag.NewFlagSet("replay", flag.ExitOnError)
	file := fs.String("file", "", "replay file")
	verbose := fs.Bool("v", false, "print the trace")
	strict := fs.Bool("strict", false, "only the recorded signature counts")
	fs.Parse(args)
	rec := loadRec(*file)
	if rec.RunFrom != nil {
		// state carried from earlier runs of the same process is part of this finding: re-execute the whole range
		rl := newRaceLog()
		opt := Options{Prop: rec.Property, Engine: rec.Engine, Tier: rec.Tier, Scenario: rec.scenario()}
		for i := *rec.RunFrom; i <= rec.Run; i++ {
			ch := simrt.NewChooser(simrt.Mix(rec.VerifSeed, uint64(i)))
			res, _ := oneRun(ch, opt, rl)
			for _, f := range res.Failures {
				if f.concerns(rec.Property) && (i == rec.Run || !*strict || (strings.Contains(f.Sig, "/race/") && strings.Contains(rec.Signature, "/race/"))) {
					fmt.Printf("REPRODUCED property=%s signature=%s in run %d of the range %d..%d: %s\n", rec.Property, f.sigFor(rec.Property), i, *rec.RunFrom, rec.Run, f.Msg)
					os.Exit(1)
				}
			}
		}
		fmt.Printf("REPLAY property=%s holds on runs %d..%d\n", rec.Property, *rec.RunFrom, rec.Run)
		os.Exit(0)
	}
	f, res, _ := replayOnce(rec, rec.Draws, newRaceLog(), !*strict)
	if *verbose {
		for _, t := range res.Trace {
			fmt.Println("  ", t)
		}
		if len(res.Schedule) > 0 {
			fmt.Println("   schedule:", strings.Join(res.Schedule, " "))
		}
		for _, x := range res.Failures {
			fmt.Printf("   failure %s %v: %s\n", x.Sig, x.Props, x.Msg)
		}
	}
	if f == nil {
		fmt.Printf("REPLAY property=%s holds on this trace (signature %s not reproduced)\n", rec.Property, rec.Signature)
		os.Exit(0)
	}
	fmt.Printf("REPRODUCED property=%s signature=%s: %s\n", rec.Property, f.sigFor(rec.Property), f.Msg)
	os.Exit(1)
}

// ---- shrink ---------------------------------------------------------------------------------

func cmdShrink(args []string) {
	fs := flag.NewFlagSet("shrink", flag.ExitOnError)
	file := fs.String("file", "", "replay file")
	out := fs.String("out", "", "minimised replay file")
	budget := fs.Int("budget", 1500, "candidate executions")
	fs.Parse(args)
	rec := loadRec(*file)
	// Race verdicts need a fresh process per candidate (ThreadSanitizer reports a stack pair once per process); runs that
	// end in a deadlock, a step cap or a goroutine panic leave their goroutines parked for ever, so their candidates
	// run in fresh processes too instead of accumulating leaked goroutines in this one.
	isRace := strings.Contains(rec.Signature, "/race/") || strings.Contains(rec.Signature, "/deadlock/") ||
		strings.Contains(rec.Signature, "/no-return/") || strings.Contains(rec.Signature, "/goroutine-panic/")
	tries := 0
	tmp := *out + ".cand"
	// minimisation is a service, not part of the verdict: after this much wall-clock time every further candidate counts as
	// "does not fail" and the best file so far is kept (one candidate of a 4097-goroutine run takes seconds)
	shrinkStart := time.Now()
	shrinkLimit := 240 * time.Second
	if v, err := strconv.Atoi(os.Getenv("VERIF_SHRINK_S")); err == nil && v > 0 {
		shrinkLimit = time.Duration(v) * time.Second
	}
	// test reports whether draws still produce the recorded signature.
	test := func(draws []int) bool {
		tries++
		if tries > 1 && time.Since(shrinkStart) > shrinkLimit {
			return false
		}
		if isRace {
			// ThreadSanitizer reports a given stack pair once per process: candidates need fresh processes.
			c := rec
			c.Draws = draws
			b, _ := json.Marshal(c)
			os.WriteFile(tmp, b, 0o644)
			cmd := exec.Command(os.Args[0], "replay", "-strict", "-file", tmp)
			cmd.Env = os.Environ()
			err := cmd.Run()
			if ee, ok := err.(*exec.ExitError); ok {
				return ee.ExitCode() == 1
			}
			return false
		}
		f, _, _ := replayOnce(rec, draws, nil, false)
		return f != nil
	}
	if isRace && *budget > 120 {
		*budget = 120
	}
	// normalise: the recorded values of a replay of the original draws
	cur := rec.Draws
	if !test(cur) {
		// not reproducible in a fresh process: keep the unshrunk trace, say so
		rec.ShrinkLog = "original draws did not reproduce in a fresh process; kept unshrunk"
		writeRec(*out, rec)
		os.Remove(tmp)
		fmt.Println("SHRINK not-reproduced")
		os.Exit(3)
	}
	spansOf := func(draws []int) []simrt.Span {
		_, _, ch := replayOnceQuiet(rec, draws)
		return ch.Spans
	}
	improved := true
	for improved && tries < *budget {
		improved = false
		// pass 1: drop whole generated steps (outermost spans), last first
		if !isRace || tries < *budget/2 {
			sp := spansOf(cur)
			for i := len(sp) - 1; i >= 0 && tries < *budget; i-- {
				s := sp[i]
				if s.Depth != 0 || s.To <= s.From || s.To > len(cur) {
					continue
				}
				cand := append(append([]int(nil), cur[:s.From]...), cur[s.To:]...)
				if test(cand) {
					cur = cand
					improved = true
					sp = spansOf(cur)
					if i > len(sp) {
						i = len(sp)
					}
				}
			}
		}
		// pass 2: drop chunks
		for size := 16; size >= 1 && tries < *budget; size /= 2 {
			for i := len(cur) - size; i >= 0 && tries < *budget; i -= size {
				cand := append(append([]int(nil), cur[:i]...), cur[i+size:]...)
				if test(cand) {
					cur = cand
					improved = true
				}
			}
		}
		// pass 3: simplify values
		for i := 0; i < len(cur) && tries < *budget; i++ {
			if cur[i] == 0 {
				continue
			}
			cand := append([]int(nil), cur...)
			cand[i] = 0
			if test(cand) {
				cur = cand
				improved = true
				continue
			}
			if cur[i] > 1 {
				cand[i] = cur[i] / 2
				if test(cand) {
					cur = cand
					improved = true
				}
			}
		}
	}
	// trailing zeros are implied by "0 when exhausted"
	for len(cur) > 0 && cur[len(cur)-1] == 0 {
		cur = cur[:len(cur)-1]
	}
	// final record: replay the minimised draws with tracing
	final := rec
	final.Draws = cur
	if isRace {
		// keep the original failure text; refresh the readable parts without consulting the race detector
		_, res, _ := replayOnceQuiet(rec, cur)
		final.Trace, final.Schedule, final.Config, final.Faults = res.Trace, res.Schedule, res.Config, res.Faults
	} else {
		f, res, _ := replayOnce(rec, cur, nil, false)
		if f == nil {
			final = rec
			final.ShrinkLog = "minimised draws failed to reproduce on the final replay; kept unshrunk"
			writeRec(*out, final)
			os.Remove(tmp)
			fmt.Println("SHRINK unstable")
			os.Exit(3)
		}
		final.Violation = *f
		final.Trace, final.Schedule, final.Config, final.Faults = res.Trace, res.Schedule, res.Config, res.Faults
	}
	final.Shrunk = true
	final.ShrinkLog = fmt.Sprintf("%d draws -> %d draws in %d candidate executions", len(rec.Draws), len(cur), tries)
	writeRec(*out, final)
	os.Remove(tmp)
	fmt.Println("SHRINK ok", final.ShrinkLog)
}

func replayOnceQuiet(rec ViolationRec, draws []int) (*Failure, RunResult, *simrt.Chooser) {
	return replayOnce(rec, draws, nil, true)
}

func writeRec(path string, rec ViolationRec) {
	b, _ := json.MarshalIndent(rec, "", " ")
	if err := os.WriteFile(path, b, 0o644); err != nil {
		fmt.Fprintln(os.Stderr, err)
		os.Exit(2)
	}
}

// swarmEnv records the environment dimensions the orchestrator varies per worker.
func swarmEnv() map[string]string {
	out := map[string]string{}
	keys := []string{"GOMAXPROCS", "LC_ALL", "LC_CTYPE", "LANG", "TZ", "VERIF_IDLE_GOROUTINES", "VERIF_REALDISK_ONLY"}
	if v := os.Getenv("VERIF_SWARM_VARS"); v != "" {
		keys = append(keys, strings.Split(v, ",")...)
	}
	for _, k := range keys {
		if v, ok := os.LookupEnv(k); ok {
			out[k] = v
		}
	}
	return out
}
