package main

// Engine `hist` (C05 C06 C08 C09 C11 C13 C19): one simulated client executes a seeded history
// of operations against the real library and the reference model.

import (
	"fmt"
	"strings"

	"verif.local/simrt"
)

type histOp struct {
	name string
	f    func(*Hist)
}

var histOps = []histOp{
	{"NewList", opNewList}, {"NewHomogeneous", opNewHomogeneous}, {"NewListOf", opNewListOf}, {"NewObject", opNewObject},
	{"NewDerived", opNewDerived}, {"Add", opAdd}, {"Insert", opInsert}, {"Replace", opReplace}, {"Delete", opDelete},
	{"Pop", opPop}, {"Clear", opClear}, {"Reverse", opReverse}, {"Sort", opSort}, {"Get", opGet}, {"TypeOf", opTypeOf},
	{"Search", opSearch}, {"SubList", opSubList}, {"Concat", opConcat}, {"MapFilter", opMapFilter}, {"PureCalls", opPureCalls},
	{"ForEachVariants", opForEachVariants}, {"Set", opSet}, {"Unset", opUnset}, {"Merge", opMerge}, {"Pluck", opPluck},
	{"KeysValues", opKeysValues}, {"ObjMap", opObjMap}, {"Clone", opClone}, {"SetTF", opSetTF}, {"UnsetTF", opUnsetTF},
	{"GetTF", opGetTF}, {"Export", opExport}, {"MutateNative", opMutateNative}, {"Import", opImport}, {"Burst", opBurst},
	{"TimePasses", opTimePasses}, {"Summaries", opSummaries},
}

// vocab: the smallest operation mix that drives each property (DESIGN §2 "Attribution").
var vocab = map[string]map[string]int{
	"C05": {"Burst": 2, "NewList": 6, "NewHomogeneous": 2, "NewListOf": 2, "NewObject": 2, "Add": 10, "Insert": 8, "Replace": 6, "Delete": 6,
		"Pop": 6, "Clear": 1, "Reverse": 3, "Sort": 2, "Get": 6, "TypeOf": 2, "Search": 4, "SubList": 5, "Concat": 5, "Set": 3,
		"Import": 2, "Export": 1},
	"C06": {"Burst": 2, "NewObject": 6, "NewList": 2, "Set": 12, "Unset": 6, "Clear": 1, "Merge": 5, "Pluck": 4, "KeysValues": 5, "Get": 6,
		"TypeOf": 2, "Search": 4, "Export": 2, "Import": 2, "Add": 2},
	"C08": {"PureCalls": 2, "Search": 2, "Export": 1, "Get": 1, "Burst": 2, "NewDerived": 1, "NewListOf": 1, "Concat": 2, "SubList": 2, "Merge": 1, "Pluck": 1, "KeysValues": 1, "MapFilter": 1, "Import": 1, "NewList": 4, "NewObject": 4, "NewHomogeneous": 1, "Clone": 8, "Add": 5, "Insert": 3, "Replace": 4, "Delete": 3, "Pop": 3,
		"Clear": 1, "Reverse": 1, "Sort": 1, "Set": 6, "Unset": 3, "SetTF": 4, "UnsetTF": 3},
	"C09": {"Burst": 2, "NewList": 4, "NewHomogeneous": 1, "NewObject": 3, "Add": 8, "Pop": 5, "Delete": 3, "Insert": 3, "Replace": 3, "Clear": 1,
		"Sort": 1, "Reverse": 2, "Set": 5, "Unset": 3, "SubList": 5, "Concat": 7, "MapFilter": 7, "ObjMap": 4, "Merge": 4, "Pluck": 3,
		"KeysValues": 4, "Export": 5, "MutateNative": 4, "PureCalls": 3, "Search": 2},
	"C11": {"Burst": 2, "NewDerived": 1, "NewListOf": 2, "Concat": 1, "SubList": 1, "Clone": 1, "NewList": 3, "NewObject": 3, "SetTF": 14, "UnsetTF": 7, "GetTF": 3, "Add": 3, "Set": 3, "Pop": 1, "Unset": 1},
	"C13": {"SubList": 1, "Concat": 1, "Clone": 1, "Merge": 1, "MapFilter": 1, "KeysValues": 1, "Pluck": 1, "Burst": 2, "NewDerived": 1, "NewListOf": 1, "NewList": 3, "NewObject": 3, "Import": 7, "Export": 8, "MutateNative": 8, "Add": 5, "Replace": 4, "Pop": 2, "Delete": 2,
		"Set": 5, "Unset": 3, "Clear": 1, "Sort": 1, "Reverse": 1, "Insert": 2, "NewHomogeneous": 1},
	"C19": {"Burst": 2, "NewListOf": 2, "NewDerived": 6, "NewList": 2, "NewObject": 2, "Add": 6, "Insert": 4, "Replace": 4, "Delete": 3, "Pop": 3, "Clear": 1,
		"Sort": 1, "Reverse": 3, "Set": 6, "Unset": 3, "ForEachVariants": 6, "SetTF": 4, "UnsetTF": 3, "Get": 6, "GetTF": 4,
		"MapFilter": 3, "KeysValues": 2, "Export": 4, "PureCalls": 1},
}

func runHist(ch *simrt.Chooser, opt Options) RunResult {
	res := RunResult{Counters: map[string]int{}}
	cfg := simrt.Config{MaxSteps: 2000000, KeepTrace: false}
	cfg.Policy = simrt.Policy(ch.Draw("policy", int(simrt.NumPolicies)))
	cfg.SwitchPermille = []int{200, 500, 1000}[ch.Draw("switch-rate", 3)]
	cfg.PCTDepth = 1 + ch.Draw("pct-depth", 3)
	cfg.KeyOrder = simrt.KeyPolicy(ch.Draw("key-order", int(simrt.NumKeyPolicies)))
	steps := 5 + ch.Draw("steps", 36)
	if opt.Tier == "thorough" {
		switch c := ch.Draw("steps-class", 20); {
		case c == 0:
			steps = 100 + ch.Draw("steps-long", 101)
		case c <= 5:
			steps = 40 + ch.Draw("steps-mid", 61)
		}
	}
	weights := vocab[opt.Prop]
	if weights == nil {
		weights = vocab["C05"]
	}
	if _, ok := weights["TimePasses"]; !ok {
		weights["TimePasses"] = 1
	}
	if _, ok := weights["Summaries"]; !ok {
		weights["Summaries"] = 2
	}
	if _, ok := weights["Sandwich"]; !ok {
		weights["Sandwich"] = 4
	}
	var table []histOp
	var cum []int
	total := 0
	for _, o := range histOps {
		if w := weights[o.name]; w > 0 {
			total += w
			table = append(table, o)
			cum = append(cum, total)
		}
	}
	res.Counters["policy:"+cfg.Policy.String()]++
	res.Counters["keyorder:"+cfg.KeyOrder.String()]++
	res.Config = map[string]any{"ops": opt.Prop, "steps": steps, "policy": cfg.Policy.String(), "key_order": cfg.KeyOrder.String()}

	h := &Hist{prop: opt.Prop, byPtr: map[uintptr]*Node{}, rel: map[[2]int]string{}, cloneTags: map[int][]int{}, hintIndex: -1, lastTouch: map[int]int{}, lastPass: map[obsKey]int{}, counters: res.Counters,
		derivedOK: opt.Prop == "C19" || opt.Prop == "C13" || opt.Prop == "C08" || opt.Prop == "C11", maxSlots: 16, maxNodes: 32}
	switch ch.Draw("size-class", 12) {
	case 0, 1:
		// some runs may grow containers well past the small-capacity steps (1, 2, 4, 8, 16, 32)
		h.maxSlots, h.big, h.sizeClass = 48, true, 1
		res.Counters["size-class:big"]++
	case 2:
		// a list far beyond any size threshold an implementation may switch strategy at (64 .. 1025 elements)
		h.sizeClass = 2
		res.Counters["size-class:huge-list"]++
	case 3:
		// a chain nested 9 .. 200 levels deep
		h.sizeClass = 3
		res.Counters["size-class:deep-chain"]++
	}
	out := simrt.Run(ch, cfg, func(s *simrt.Sim) {
		h.d = s
		switch h.sizeClass {
		case 2:
			s.Begin("op")
			opNewHuge(h)
			s.End()
		case 3:
			s.Begin("op")
			opNewDeep(h)
			s.End()
		}
		if s.Draw("read-discipline", 3) == 0 {
			h.sparse = 2 + s.Draw("sparse-every", 7)
			res.Counters["probe:sparse-reads"]++
		}
		for i := 0; i < steps && !h.dead; i++ {
			s.Begin("op")
			x := s.Draw("op", total)
			for j, c := range cum {
				if x < c {
					table[j].f(h)
					break
				}
			}
			s.End()
		}
		if h.unchecked > 0 && !h.dead {
			h.final = true
			h.heapCheck()
		}
	})
	res.Steps = h.step
	res.Evals = h.evals
	res.Trace = h.trace
	res.Finger = fnv(h.opSeq, h.snapshotSafe(out.Kind == simrt.OutOK))
	res.NonTrivial = h.mutAfterAlias
	for k, v := range out.Probes {
		res.Counters["probe:sched-"+k] += v
	}
	res.Counters["sched:virtual-time-s"] += int(out.VirtualNs / 1e9)
	switch out.Kind {
	case simrt.OutOK:
		res.Failures = h.fails
	case simrt.OutPanic:
		// a panic that escaped an operation: the harness wraps every library call, so this is a harness problem or
		// a panic inside a worker goroutine of an async call
		own := []string{"C15"}
		sig := "C15/goroutine-panic/hist"
		if out.PanicG == 0 || panicRaisedInLibrary(out.PanicStack) {
			// the history's own client panicked inside a library call the harness did not expect to panic (a constructor, an
			// observer used by the comparison): the operation in progress is outside its documented behaviour
			if len(h.curOwner) > 0 && panicRaisedInLibrary(out.PanicStack) {
				own = append(append([]string(nil), h.curOwner...), "C15")
				sig = h.curOwner[0] + "/escaped-panic/" + h.curOp
			}
		}
		res.Failures = append(res.Failures, Failure{Oracle: "goroutine-panic", Sig: sig, Props: own,
			Msg: fmt.Sprintf("goroutine g%d panicked during %s: %s", out.PanicG, h.curOp, out.PanicMsg), Detail: out.PanicStack})
	case simrt.OutDeadlock:
		// the single client of a history can only block for ever on the library's own synchronisation (e.g. a lock left held
		// by an earlier operation that panicked): the operation in progress never returns
		own := h.curOwner
		if len(own) == 0 {
			own = []string{"C15"}
		}
		res.Failures = append(res.Failures, Failure{Oracle: "deadlock", Sig: own[0] + "/deadlock/" + h.curOp, Props: own,
			Msg: fmt.Sprintf("%s never returned, the history's only client is blocked for ever: %s", h.curOp, strings.Join(out.Blocked, " "))})
		res.Failures[len(res.Failures)-1].Step = h.step
	default:
		res.Failures = append(res.Failures, Failure{Oracle: "inconclusive", Sig: "C15/step-bound/hist", Props: []string{"HARNESS"},
			Msg: fmt.Sprintf("inconclusive: history exceeded the step bound during %s: %s", h.curOp, strings.Join(out.Blocked, " "))})
	}
	return res
}

// panicRaisedInLibrary: the innermost frame below the runtime's panic machinery belongs to the library under test.
func panicRaisedInLibrary(stack string) bool {
	lines := strings.Split(stack, "\n")
	seenPanic := false
	for _, l := range lines {
		l = strings.TrimSpace(l)
		if strings.HasPrefix(l, "panic(") || strings.HasPrefix(l, "runtime.gopanic") || strings.HasPrefix(l, "runtime.panic") || strings.HasPrefix(l, "runtime.goPanic") {
			seenPanic = true
			continue
		}
		if !seenPanic || strings.HasPrefix(l, "/") || strings.HasPrefix(l, "runtime.") || l == "" {
			continue
		}
		return strings.HasPrefix(l, "github.com/DanielSvub/anytype.")
	}
	return false
}

func (h *Hist) snapshotSafe(ok bool) uint64 {
	if !ok || len(h.fails) > 0 {
		// (after a reported failure the heap may be in a state in which even reading it panics)
		return 0
	}
	var x uint64
	if p, msg := try(func() { x = h.snapshot() }); p {
		h.fails = append(h.fails, Failure{Oracle: "unexpected-panic", Sig: h.prop + "/unexpected-panic/final-read", Props: []string{h.prop}, Step: h.step,
			Msg: "reading the heap after the last step panicked: " + msg})
	}
	return x
}

func init() {
	histOps = append(histOps, histOp{"Sandwich", opSandwich})
	histOpsRef = histOps
	engines["hist"] = runHist
}

// Fluent methods (documented as returning the updated or unchanged container) that the hist engine issues on
// derived receivers, and methods that return a new container. Anything else in the interfaces that returns the
// interface type is reported as uncovered (C19: "enumerated from the interface itself, so additions are noticed").
var fluentCovered = map[string]bool{"Add": true, "Insert": true, "Replace": true, "Delete": true, "Pop": true, "Clear": true, "Sort": true,
	"Reverse": true, "Set": true, "Unset": true, "ForEach": true, "ForEachValue": true, "ForEachObject": true, "ForEachList": true,
	"ForEachString": true, "ForEachBool": true, "ForEachInt": true, "ForEachFloat": true, "ForEachAsync": true, "SetTF": true, "UnsetTF": true}

var returnsNew = map[string]bool{"Ego": true, "Clone": true, "Concat": true, "SubList": true, "Map": true, "MapValues": true, "MapObjects": true,
	"MapLists": true, "MapStrings": true, "MapBools": true, "MapInts": true, "MapFloats": true, "MapAsync": true, "Filter": true,
	"FilterObjects": true, "FilterLists": true, "FilterStrings": true, "FilterInts": true, "FilterFloats": true, "Keys": true, "Values": true,
	"Merge": true, "Pluck": true, "GetList": true, "GetObject": true}
