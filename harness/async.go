package main

// Engine `async` (property C15): ForEachAsync / MapAsync under seeded schedules,
// and concurrent read-only clients on a shared, unmodified heap.
//
// The recorded history (simrt.LogEv, globally sequenced by the scheduler) is
// checked after the run: every callback exactly once with the right pair, the
// call returns only after the last callback returned. MapAsync is compared with
// the library's own sequential Map. Read-only clients compare each result with
// the value the same call produced sequentially before the clients started.
// Data races are ThreadSanitizer's verdict on this serialised execution
// (see simrt/sched.go) and are collected by the worker loop in main.go.

import (
	"bytes"
	"encoding/json"
	"fmt"
	"os"
	"reflect"
	"sort"
	"strconv"
	"strings"
	"time"

	at "github.com/DanielSvub/anytype"
	"verif.local/simrt"
)

const (
	tagCbStart uint8 = iota + 1
	tagCbEnd
	tagCallStart
	tagCallRet
)

// asyncCall is what the caller of one ForEachAsync knows; it is owned by the calling goroutine.
type asyncCall struct {
	id       uint64
	what     string
	expected map[uint64]int // hash(slot, value) -> multiplicity
	n        int
}

type asyncClient struct {
	id    int
	calls []*asyncCall
	fails []Failure
	evals int
	ops   map[string]int
}

func (c *asyncClient) fail(oracle, where, msg string) {
	c.fails = append(c.fails, Failure{Oracle: oracle, Sig: "C15/" + oracle + "/" + where, Props: []string{"C15"}, Msg: msg})
}

var asyncScenarios = []string{"foreach-list", "foreach-object", "map-list", "map-object", "readers-mixed", "readers-same", "calls-between-mutations"}

func runAsync(ch *simrt.Chooser, opt Options) RunResult {
	res := RunResult{Counters: map[string]int{}}
	cfg := simrt.Config{MaxSteps: 2000000, KeepTrace: opt.KeepTrace}
	// PCT (few, well-placed preemptions of an otherwise run-to-block schedule) gets a double share
	cfg.Policy = []simrt.Policy{simrt.PolRandom, simrt.PolLowest, simrt.PolHighest, simrt.PolRoundRobin, simrt.PolPCT, simrt.PolPCT, simrt.PolStarve, simrt.PolStall, simrt.PolStall}[ch.Draw("policy", 9)]
	cfg.StallAfterUnlockPermille = []int{30, 80, 250}[ch.Draw("stall-after-unlock-rate", 3)]
	if v := os.Getenv("VERIF_FORCE_POLICY"); v != "" { // debugging aid
		n, _ := strconv.Atoi(v)
		cfg.Policy = simrt.Policy(n)
	}
	if cfg.Policy == simrt.PolStall && ch.Draw("stall-run-to-block", 2) == 0 {
		cfg.SwitchPermille = 0 // otherwise run-to-block: the only preemptions are the hold-backs
	}
	cfg.SwitchPermille = []int{50, 200, 500, 800, 1000}[ch.Draw("switch-rate", 5)]
	cfg.PCTDepth = 1 + ch.Draw("pct-depth", 3)
	cfg.PCTHorizon = []int{30, 80, 200, 500}[ch.Draw("pct-horizon", 4)]
	cfg.StallPermille = []int{0, 0, 20, 200}[ch.Draw("stall-rate", 4)]
	cfg.KeyOrder = simrt.KeyPolicy(ch.Draw("key-order", int(simrt.NumKeyPolicies)))
	scen := []int{0, 1, 2, 3, 4, 4, 5, 5, 6}[ch.Draw("scenario", 9)]
	if opt.Scenario >= 0 {
		scen = opt.Scenario
	}
	res.Counters["policy:"+cfg.Policy.String()]++
	res.Counters["keyorder:"+cfg.KeyOrder.String()]++
	res.Counters["scenario:"+asyncScenarios[scen]]++
	res.Config = map[string]any{"policy": cfg.Policy.String(), "switch_permille": cfg.SwitchPermille,
		"pct_depth": cfg.PCTDepth, "key_order": cfg.KeyOrder.String(), "scenario": asyncScenarios[scen]}

	var clients []*asyncClient
	top := &asyncClient{id: 0, ops: map[string]int{}}
	clients = append(clients, top)
	var trace []string

	out := simrt.Run(ch, cfg, func(s *simrt.Sim) {
		width := 8
		switch wc := s.Draw("width-class", 30); {
		case wc < 5:
			width = 40 // beyond any small batch size a chunking implementation might use
			res.Counters["size-class:wide"]++
		case wc == 5:
			width = []int{64, 65, 100, 128, 129, 256, 257, 320, 384, 512, 513, 600, 1024, 1025, 2048, 2049, 4097}[s.Draw("huge-width", 17)] // at and beyond larger batch sizes
			res.Counters["size-class:huge"]++
		}
		exact := 0
		if width > 40 {
			exact = width
		}
		build := func(list bool, s drawer) any {
			if exact == 0 {
				if list {
					return genList(s, treeOpts{depth: 2, width: width, spare: true})
				}
				return genObject(s, treeOpts{depth: 2, width: width, spare: true, keys: wideKeys(width)})
			}
			// exactly `exact` elements (batch and chunk boundaries are exact counts)
			if list {
				l := at.NewList()
				for i := 0; i < exact; i++ {
					l.Add(genValue(s, treeOpts{depth: 1, width: 2}))
				}
				return l
			}
			o := at.NewObject()
			for i := 0; i < exact; i++ {
				o.Set("k"+strconv.Itoa(i), genValue(s, treeOpts{depth: 1, width: 2}))
			}
			return o
		}
		// A container reaches an asynchronous call by many routes; the routes differ in what the slots share (NewListOf puts one
		// value into every slot, a list concatenated with itself holds each element twice, a clone or a sub-list may share
		// immutable scalars with its source).
		plainBuild := build
		build = func(list bool, s drawer) any {
			c := plainBuild(list, s)
			route := s.Draw("provenance", 16)
			if list {
				l := c.(at.List)
				switch route {
				case 0:
					c = l.Concat(l)
				case 1:
					n := l.Count()
					if n == 0 {
						n = 3
					}
					c = at.NewListOf(genScalar(s), n)
				case 2:
					c = l.Clone()
				case 3:
					c = l.SubList(0, l.Count())
				case 4:
					c = at.NewListFrom(l.Slice())
				case 5:
					c = l.Concat(l).SubList(l.Count()/2, l.Count()+l.Count()/2)
				case 6:
					c = at.NewList(l.Slice()...)
				default:
					return c
				}
				res.Counters["provenance:list-route-"+strconv.Itoa(route)]++
				return c
			}
			o := c.(at.Object)
			switch route {
			case 0:
				c = o.Clone()
			case 1:
				c = at.NewObjectFrom(o.Dict())
			case 2:
				c = o.Merge(at.NewObject())
			case 3:
				// the same values under a second set of keys
				d := at.NewObject()
				o.ForEach(func(k string, v any) { d.Set(k, v); d.Set(k+"'", v) })
				c = d
			default:
				return c
			}
			res.Counters["provenance:object-route-"+strconv.Itoa(route)]++
			return c
		}
		// cold: the container is not read by anybody between its construction and the asynchronous call (what the call's
		// workers find is exactly what the constructors left: caches not yet filled, lazily initialised parts not yet there).
		// What it must contain is known from a twin built from the same decisions.
		cold := s.Draw("cold", 3) == 0
		rec := &recDrawer{d: s}
		switch scen {
		case 0, 1:
			c := build(scen == 0, rec)
			if cold {
				res.Counters["probe:cold-container"]++
				twin := build(scen == 0, rec.replayer())
				doForEachAsync(s, top, c, 1, true)
				if after, want := canon(c, nil), canon(twin, nil); after != want {
					top.fail("receiver-changed", asyncScenarios[scen], "ForEachAsync changed its receiver (never read before the call): built as "+short(want, 200)+" -> "+short(after, 200))
				}
				break
			}
			nm := nameHeap(c)
			before := canon(c, nm)
			trace = append(trace, "container "+short(before, 300))
			doForEachAsync(s, top, c, 1, false)
			if after := canon(c, nm); after != before {
				top.fail("receiver-changed", asyncScenarios[scen], "ForEachAsync changed its receiver: "+short(before, 200)+" -> "+short(after, 200))
			}
		case 2, 3:
			c := build(scen == 2, rec)
			f := s.Draw("pure-fn", len(pureFns))
			if cold {
				res.Counters["probe:cold-container"]++
				twin := build(scen == 2, rec.replayer())
				trace = append(trace, "fn "+pureFns[f].name)
				doMapAsync(s, top, c, f, nil)
				if after, want := canon(c, nil), canon(twin, nil); after != want {
					top.fail("receiver-changed", asyncScenarios[scen], "MapAsync/Map changed the receiver (never read before the call): built as "+short(want, 200)+" -> "+short(after, 200))
				}
				break
			}
			nm := nameHeap(c)
			before := canon(c, nm)
			trace = append(trace, "container "+short(before, 300), "fn "+pureFns[f].name)
			doMapAsync(s, top, c, f, nm)
			if after := canon(c, nm); after != before {
				top.fail("receiver-changed", asyncScenarios[scen], "MapAsync/Map changed the receiver: "+short(before, 200)+" -> "+short(after, 200))
			}
		case 6:
			// one container, asynchronous calls with sequential mutations between them: whatever a call prepares and keeps
			// inside the container (a dispatch plan, a snapshot of keys) has to follow Set/Unset/Clear/Add/Pop/… before the next call
			width = 2 + s.Draw("small-width", 10)
			exact = 0
			c := plainBuild(s.Draw("mutated-kind", 2) == 0, s)
			rounds := 2 + s.Draw("rounds", 4)
			for r := 0; r < rounds; r++ {
				nm := nameHeap(c)
				before := canon(c, nm)
				trace = append(trace, fmt.Sprintf("round %d: %s", r, short(before, 200)))
				if s.Draw("round-call", 2) == 0 {
					doForEachAsync(s, top, c, 10+r, false)
				} else {
					doMapAsync(s, top, c, s.Draw("pure-fn", len(pureFns)), nm)
				}
				if after := canon(c, nm); after != before {
					top.fail("receiver-changed", asyncScenarios[scen], "an asynchronous call changed its receiver: "+short(before, 200)+" -> "+short(after, 200))
					break
				}
				for m, k := 0, 1+s.Draw("mutations", 6); m < k; m++ {
					switch x := c.(type) {
					case at.List:
						n := x.Count()
						switch op := s.Draw("list-mutation", 8); {
						case op == 0 && n > 0:
							x.Pop()
						case op == 1 && n > 0:
							x.Replace(s.Draw("at", n), genScalar(s))
						case op == 2:
							x.Insert(s.Draw("at", n+1), genScalar(s))
						case op == 3 && n > 0:
							x.Delete(s.Draw("at", n))
						case op == 4 && s.Draw("clear", 3) == 0:
							x.Clear()
						case op == 5:
							x.Reverse()
						default:
							x.Add(genScalar(s))
						}
					case at.Object:
						keys := sortedKeys(x)
						switch op := s.Draw("object-mutation", 6); {
						case op == 0 && len(keys) > 0:
							x.Unset(keys[s.Draw("key", len(keys))])
						case op == 1 && len(keys) > 0:
							x.Set(keys[s.Draw("key", len(keys))], genScalar(s))
						case op == 2 && s.Draw("clear", 2) == 0:
							x.Clear()
						default:
							x.Set("m"+strconv.Itoa(s.Draw("new-key", 12)), genScalar(s))
						}
					}
				}
			}
		case 4, 5:
			clients = append(clients, readers(s, top, scen == 5, &trace)...)
		}
	})

	res.Steps = out.Steps
	res.Finger = out.Fingerprint
	res.NonTrivial = out.Goroutines >= 3 && out.Switches >= 2
	res.Counters["sched:context-switches"] += out.Switches
	res.Counters["sched:virtual-time-ms"] += int(out.VirtualNs / 1e6)
	res.Counters["sched:goroutines-peak-sum"] += out.Goroutines
	for k, v := range out.Probes {
		res.Counters["probe:"+k] += v
	}
	res.Trace = trace
	if opt.KeepTrace {
		res.Schedule = renderSchedule(out.Trace)
	}
	where := asyncScenarios[scen]
	switch out.Kind {
	case simrt.OutDeadlock:
		res.Failures = append(res.Failures, Failure{Oracle: "deadlock", Sig: "C15/deadlock/" + where, Props: []string{"C15"},
			Msg: "no goroutine can run: " + strings.Join(out.Blocked, " ")})
		return res
	case simrt.OutStepCap:
		// Not a verdict: a step bound cannot tell a livelock from a polling loop that an unfair schedule or a long simulated
		// delay keeps spinning. (A call that can never return because nobody will wake it is a deadlock, reported above.)
		res.Failures = append(res.Failures, Failure{Oracle: "inconclusive", Sig: "C15/step-bound/" + where, Props: []string{"HARNESS"},
			Msg: fmt.Sprintf("inconclusive: run exceeded %d scheduler steps (livelock, or a polling loop under an unfair schedule): %s", out.Steps, strings.Join(out.Blocked, " "))})
		return res
	case simrt.OutPanic:
		res.Failures = append(res.Failures, Failure{Oracle: "goroutine-panic", Sig: "C15/goroutine-panic/" + where, Props: []string{"C15"},
			Msg: fmt.Sprintf("goroutine g%d panicked: %s", out.PanicG, out.PanicMsg), Detail: out.PanicStack})
		return res
	}
	// The run joined: client-owned records may be read now.
	for _, c := range clients {
		res.Evals += c.evals
		res.Failures = append(res.Failures, c.fails...)
		for k, v := range c.ops {
			if strings.HasPrefix(k, "probe:") {
				res.Counters[k] += v
			} else {
				res.Counters["op:"+k] += v
			}
		}
		for _, call := range c.calls {
			res.Evals++
			if f := checkAsyncHistory(out.Log, call, where); f != nil {
				res.Failures = append(res.Failures, *f)
			}
		}
	}
	return res
}

func renderSchedule(tr []simrt.GateEv) []string {
	out := make([]string, 0, len(tr))
	for _, e := range tr {
		out = append(out, fmt.Sprintf("g%d:%s", e.G, simrt.GateName(e.K)))
	}
	return out
}

// checkAsyncHistory evaluates the ForEachAsync statement on the recorded history.
func checkAsyncHistory(log []simrt.LogEv, call *asyncCall, where string) *Failure {
	seen := map[uint64]int{}
	started := map[uint64]int{}
	retSeq := -1
	lastEnd := -1
	ends := 0
	for _, e := range log {
		if e.A != call.id {
			continue
		}
		switch e.Tag {
		case tagCbStart:
			started[e.B]++
		case tagCbEnd:
			seen[e.B]++
			ends++
			if e.Seq > lastEnd {
				lastEnd = e.Seq
			}
		case tagCallRet:
			retSeq = e.Seq
		}
	}
	mk := func(oracle, msg string) *Failure {
		return &Failure{Oracle: oracle, Sig: "C15/" + oracle + "/" + where, Props: []string{"C15"}, Msg: call.what + ": " + msg}
	}
	if retSeq < 0 {
		return mk("no-return", "the call did not return")
	}
	if lastEnd > retSeq {
		n := 0
		for _, e := range log {
			if e.A == call.id && e.Tag == tagCbEnd && e.Seq > retSeq {
				n++
			}
		}
		return mk("early-return", fmt.Sprintf("returned at event %d while %d of %d callbacks had not returned yet", retSeq, n, call.n))
	}
	for h, want := range call.expected {
		if seen[h] != want {
			return mk("callback-pairs", fmt.Sprintf("a (slot,value) pair was delivered %d times, expected %d (callbacks returned: %d, expected %d)", seen[h], want, ends, call.n))
		}
	}
	for h, got := range seen {
		if call.expected[h] == 0 {
			return mk("callback-pairs", fmt.Sprintf("callback received a (slot,value) pair the container does not hold (%d times); callbacks returned: %d, expected %d", got, ends, call.n))
		}
	}
	for h, got := range started {
		if got != call.expected[h] {
			return mk("callback-pairs", "a callback was started a different number of times than it finished")
		}
	}
	return nil
}

var callSeq uint64

// doForEachAsync calls ForEachAsync on c (List or Object) with a logging, yielding callback.
func doForEachAsync(s *simrt.Sim, cl *asyncClient, c any, seq int, cold bool) {
	id := uint64(cl.id)*1000 + uint64(seq)
	call := &asyncCall{id: id, expected: map[uint64]int{}}
	reentrant := s.Draw("cb-reentrant", 8) == 0
	reenterAll := false
	if reentrant {
		cl.ops["probe:callback-calls-back-into-the-library"]++
		// every callback calls back (all workers of a wide call inside nested asynchronous calls at the same time)
		reenterAll = s.Draw("cb-reenter-all", 2) == 0
	}
	cb := func(slot uint64, v any) {
		h := fnv(0, slot, digest(v))
		s.Log(tagCbStart, id, h)
		y := s.Draw("cb-yield", 4)
		if s.Draw("cb-yield-tail", 40) == 0 {
			y = 10 + s.Draw("cb-yield-long", 30) // one callback delayed for a long time
		}
		for ; y > 0; y-- {
			simrt.Yield()
		}
		if s.Draw("cb-slow", 12) == 0 {
			// a callback that takes simulated time (a library that stops waiting after a while returns early)
			simrt.Sleep([]time.Duration{time.Millisecond, 20 * time.Millisecond, 300 * time.Millisecond, 2 * time.Second, 4 * time.Second, 45 * time.Second}[s.Draw("cb-slow-d", 6)])
		}
		if reentrant && (reenterAll || s.Draw("cb-reenter-now", 3) == 0) {
			reenter(s, c)
		}
		s.Log(tagCbEnd, id, h)
	}
	switch x := c.(type) {
	case at.List:
		call.what = "List.ForEachAsync"
		expect := func() {
			call.n = x.Count()
			for i := 0; i < call.n; i++ {
				call.expected[fnv(0, uint64(i), digest(x.Get(i)))]++
			}
		}
		if cold {
			defer expect() // read only after the call (the caller compares the receiver with its twin)
		} else {
			expect()
		}
		cl.calls = append(cl.calls, call)
		cl.ops["List.ForEachAsync"]++
		s.Log(tagCallStart, id, 0)
		var ret at.List
		p, msg := try(func() { ret = x.ForEachAsync(func(i int, v any) { cb(uint64(i), v) }) })
		s.Log(tagCallRet, id, 0)
		if p {
			cl.fail("unexpected-panic", "foreach-list", "ForEachAsync panicked: "+msg)
		} else if ret != x.Ego() {
			cl.fail("return-identity", "foreach-list", "ForEachAsync did not return its receiver")
		}
	case at.Object:
		call.what = "Object.ForEachAsync"
		expect := func() {
			d := x.Dict()
			call.n = len(d)
			for k, v := range d {
				call.expected[fnv(0, hashString(k), digest(v))]++
			}
		}
		if cold {
			defer expect()
		} else {
			expect()
		}
		cl.calls = append(cl.calls, call)
		cl.ops["Object.ForEachAsync"]++
		s.Log(tagCallStart, id, 0)
		var ret at.Object
		p, msg := try(func() { ret = x.ForEachAsync(func(k string, v any) { cb(hashString(k), v) }) })
		s.Log(tagCallRet, id, 0)
		if p {
			cl.fail("unexpected-panic", "foreach-object", "ForEachAsync panicked: "+msg)
		} else if ret != x.Ego() {
			cl.fail("return-identity", "foreach-object", "ForEachAsync did not return its receiver")
		}
	}
	cl.evals++
}

// pureFns: results depend on both arguments so that mis-pairing and lost updates show.
type pureFn struct {
	name string
	f    func(slot string, i int, v any) any
}

func kindName(v any) string {
	switch v.(type) {
	case nil:
		return "nil"
	case bool:
		return "bool"
	case int:
		return "int"
	case float64:
		return "float"
	case string:
		return "string"
	case at.List:
		return "list"
	case at.Object:
		return "object"
	}
	return "?"
}

var pureFns = []pureFn{
	{"pair", func(slot string, i int, v any) any { return []any{slot, v} }},
	{"tag", func(slot string, i int, v any) any { return "k:" + slot + ":" + kindName(v) }},
	{"identity", func(slot string, i int, v any) any { return v }},
	{"const", func(slot string, i int, v any) any { return 7 }},
	{"fresh-list", func(slot string, i int, v any) any { return at.NewList(slot, kindName(v)) }},
	{"mixed", func(slot string, i int, v any) any {
		switch len(slot) % 3 {
		case 0:
			return v
		case 1:
			return map[string]any{"slot": slot, "v": v}
		}
		return float64(len(slot)) + 0.5
	}},
}

func doMapAsync(s *simrt.Sim, cl *asyncClient, c any, fn int, nm namer) {
	pf := pureFns[fn]
	reentrant := s.Draw("cb-reentrant", 8) == 0
	reenterAll := false
	if reentrant {
		cl.ops["probe:callback-calls-back-into-the-library"]++
		// every callback calls back (all workers of a wide call inside nested asynchronous calls at the same time)
		reenterAll = s.Draw("cb-reenter-all", 2) == 0
	}
	yielding := func(slot string, i int, v any) any {
		for y := s.Draw("cb-yield", 3); y > 0; y-- {
			simrt.Yield()
		}
		if reentrant && (reenterAll || len(slot)%3 == 0) {
			reenter(s, c)
		}
		return pf.f(slot, i, v)
	}
	var a, b any
	var where string
	var pa, pb bool
	switch x := c.(type) {
	case at.List:
		where = "map-list"
		cl.ops["List.MapAsync"]++
		pa, _ = try(func() { a = x.MapAsync(func(i int, v any) any { return yielding(strconv.Itoa(i), i, v) }) })
		pb, _ = try(func() { b = x.Map(func(i int, v any) any { return yielding(strconv.Itoa(i), i, v) }) })
		if !pa && a.(at.List) == x.Ego() {
			cl.fail("result-not-fresh", where, "MapAsync returned its receiver")
		}
	case at.Object:
		where = "map-object"
		cl.ops["Object.MapAsync"]++
		pa, _ = try(func() { a = x.MapAsync(func(k string, v any) any { return yielding(k, 0, v) }) })
		pb, _ = try(func() { b = x.Map(func(k string, v any) any { return yielding(k, 0, v) }) })
		if !pa && a.(at.Object) == x.Ego() {
			cl.fail("result-not-fresh", where, "MapAsync returned its receiver")
		}
	}
	cl.evals++
	if pa != pb {
		cl.fail("map-differs", where, fmt.Sprintf("MapAsync panicked=%v but Map panicked=%v (fn %s)", pa, pb, pf.name))
		return
	}
	if pa {
		return
	}
	// give other goroutines (if any survive the call) a chance to clobber the result before it is read
	simrt.Yield()
	if nm == nil {
		nm = nameHeap(c)
	}
	ca, cb := canon(a, nm), canon(b, nm)
	if ca != cb {
		cl.fail("map-differs", where, fmt.Sprintf("fn %s: MapAsync = %s, Map = %s", pf.name, short(ca, 300), short(cb, 300)))
	}
}

// recDrawer records the decisions of a generator so that the same structure can be built a second time.
type recDrawer struct {
	d   drawer
	rec []int
	rep bool
	pos int
}

func (r *recDrawer) Draw(label string, n int) int {
	if r.rep {
		v := r.rec[r.pos]
		r.pos++
		return v
	}
	v := r.d.Draw(label, n)
	r.rec = append(r.rec, v)
	return v
}

func (r *recDrawer) replayer() *recDrawer { return &recDrawer{rec: r.rec, rep: true} }

// nameHeap names every container reachable from the roots.
func nameHeap(roots ...any) namer {
	nm := namer{}
	var walk func(v any)
	walk = func(v any) {
		switch x := v.(type) {
		case at.List:
			if _, ok := nm[ptrOf(x)]; ok {
				return
			}
			nm[ptrOf(x)] = "@L" + strconv.Itoa(len(nm))
			for i, n := 0, x.Count(); i < n; i++ {
				walk(x.Get(i))
			}
		case at.Object:
			if _, ok := nm[ptrOf(x)]; ok {
				return
			}
			nm[ptrOf(x)] = "@O" + strconv.Itoa(len(nm))
			d := x.Dict()
			keys := make([]string, 0, len(d))
			for k := range d {
				keys = append(keys, k)
			}
			sort.Strings(keys)
			for _, k := range keys {
				walk(d[k])
			}
		}
	}
	for _, r := range roots {
		walk(r)
	}
	return nm
}

// ---- concurrent read-only clients -----------------------------------------------------------------

// roCall is one read-only call with concrete arguments, fixed before the clients start.
type roCall struct {
	op    *roOp
	c     any // receiver (List or Object)
	a, b  int
	other any // another container of the same interface
	val   any // a value to look for
	path  string
	keys  []string
	fn    int
	seq   int
	exp   string
	got   string // cold readers: the concurrent result, compared with exp afterwards
}

type roOp struct {
	name    string
	list    func(s *simrt.Sim, cl *asyncClient, l at.List, c *roCall) any
	obj     func(s *simrt.Sim, cl *asyncClient, o at.Object, c *roCall) any
	canon   func(raw any, nm namer) string
	isAsync bool
}

func yieldSome(s *simrt.Sim) {
	for y := s.Draw("cb-yield", 3); y > 0; y-- {
		simrt.Yield()
	}
}

func idx(c *roCall, n int) int {
	// -1 .. n  (both out-of-range ends included)
	return c.a%(n+2) - 1
}

func canonJSON(s string) string {
	dec := json.NewDecoder(bytes.NewReader([]byte(s)))
	dec.UseNumber()
	var v any
	if err := dec.Decode(&v); err == nil {
		if out, err := json.Marshal(v); err == nil {
			return "json:" + string(out)
		}
	}
	b := []byte(s)
	sort.Slice(b, func(i, j int) bool { return b[i] < b[j] })
	return "bytes:" + string(b)
}

func canonText(raw any, nm namer) string {
	if s, ok := raw.(string); ok {
		return canonJSON(s)
	}
	return canon(raw, nm)
}

func canonSet(raw any, nm namer) string {
	if l, ok := raw.(at.List); ok {
		return canonMultiset(l, nm)
	}
	return canon(raw, nm)
}

var listOps, objOps []*roOp

func lop(name string, f func(s *simrt.Sim, cl *asyncClient, l at.List, c *roCall) any) *roOp {
	o := &roOp{name: name, list: f}
	listOps = append(listOps, o)
	return o
}

func oop(name string, f func(s *simrt.Sim, cl *asyncClient, o at.Object, c *roCall) any) *roOp {
	o := &roOp{name: name, obj: f}
	objOps = append(objOps, o)
	return o
}

type visit struct{ parts []string }

func (v *visit) add(s string) { v.parts = append(v.parts, s) }
func (v *visit) seq() string  { return "visited(" + strings.Join(v.parts, ";") + ")" }
func (v *visit) set() string {
	p := append([]string(nil), v.parts...)
	sort.Strings(p)
	return "visited-set(" + strings.Join(p, ";") + ")"
}

func init() {
	type S = *simrt.Sim
	type C = *asyncClient
	type L = at.List
	type O = at.Object
	type R = *roCall

	// ---- List
	lop("Ego", func(s S, cl C, l L, c R) any { return l.Ego() })
	lop("Get", func(s S, cl C, l L, c R) any { return l.Get(idx(c, l.Count())) })
	lop("GetObject", func(s S, cl C, l L, c R) any { return l.GetObject(idx(c, l.Count())) })
	lop("GetList", func(s S, cl C, l L, c R) any { return l.GetList(idx(c, l.Count())) })
	lop("GetString", func(s S, cl C, l L, c R) any { return l.GetString(idx(c, l.Count())) })
	lop("GetBool", func(s S, cl C, l L, c R) any { return l.GetBool(idx(c, l.Count())) })
	lop("GetInt", func(s S, cl C, l L, c R) any { return l.GetInt(idx(c, l.Count())) })
	lop("GetFloat", func(s S, cl C, l L, c R) any { return l.GetFloat(idx(c, l.Count())) })
	lop("TypeOf", func(s S, cl C, l L, c R) any { return l.TypeOf(idx(c, l.Count())) })
	lop("String", func(s S, cl C, l L, c R) any { return l.String() }).canon = canonText
	lop("FormatString", func(s S, cl C, l L, c R) any { return l.FormatString(c.b%13 - 1) }).canon = canonText
	lop("Slice", func(s S, cl C, l L, c R) any { return l.Slice() })
	lop("NativeSlice", func(s S, cl C, l L, c R) any { return l.NativeSlice() })
	lop("ObjectSlice", func(s S, cl C, l L, c R) any { return l.ObjectSlice() })
	lop("ListSlice", func(s S, cl C, l L, c R) any { return l.ListSlice() })
	lop("StringSlice", func(s S, cl C, l L, c R) any { return l.StringSlice() })
	lop("BoolSlice", func(s S, cl C, l L, c R) any { return l.BoolSlice() })
	lop("IntSlice", func(s S, cl C, l L, c R) any { return l.IntSlice() })
	lop("FloatSlice", func(s S, cl C, l L, c R) any { return l.FloatSlice() })
	lop("Clone", func(s S, cl C, l L, c R) any { return l.Clone() })
	lop("Count", func(s S, cl C, l L, c R) any { return l.Count() })
	lop("Empty", func(s S, cl C, l L, c R) any { return l.Empty() })
	lop("Equals", func(s S, cl C, l L, c R) any { return l.Equals(c.other.(L)) })
	lop("Concat", func(s S, cl C, l L, c R) any { return l.Concat(c.other.(L)) })
	lop("SubList", func(s S, cl C, l L, c R) any {
		n := l.Count()
		return l.SubList(c.a%(n+2), c.b%(2*n+3)-n-1)
	})
	lop("Contains", func(s S, cl C, l L, c R) any { return l.Contains(c.val) })
	lop("IndexOf", func(s S, cl C, l L, c R) any { return l.IndexOf(c.val) })
	lop("AllObjects", func(s S, cl C, l L, c R) any { return l.AllObjects() })
	lop("AllLists", func(s S, cl C, l L, c R) any { return l.AllLists() })
	lop("AllStrings", func(s S, cl C, l L, c R) any { return l.AllStrings() })
	lop("AllBools", func(s S, cl C, l L, c R) any { return l.AllBools() })
	lop("AllInts", func(s S, cl C, l L, c R) any { return l.AllInts() })
	lop("AllFloats", func(s S, cl C, l L, c R) any { return l.AllFloats() })
	lop("AllNumeric", func(s S, cl C, l L, c R) any { return l.AllNumeric() })
	lop("ForEach", func(s S, cl C, l L, c R) any {
		var v visit
		r := l.ForEach(func(i int, x any) { yieldSome(s); v.add(strconv.Itoa(i) + "=" + canon(x, nil)) })
		return v.seq() + retID(r == l.Ego())
	})
	lop("ForEachValue", func(s S, cl C, l L, c R) any {
		var v visit
		r := l.ForEachValue(func(x any) { yieldSome(s); v.add(canon(x, nil)) })
		return v.seq() + retID(r == l.Ego())
	})
	lop("ForEachObject", func(s S, cl C, l L, c R) any {
		var v visit
		r := l.ForEachObject(func(x O) { yieldSome(s); v.add(canon(x, nil)) })
		return v.seq() + retID(r == l.Ego())
	})
	lop("ForEachList", func(s S, cl C, l L, c R) any {
		var v visit
		r := l.ForEachList(func(x L) { yieldSome(s); v.add(canon(x, nil)) })
		return v.seq() + retID(r == l.Ego())
	})
	lop("ForEachString", func(s S, cl C, l L, c R) any {
		var v visit
		r := l.ForEachString(func(x string) { yieldSome(s); v.add(canon(x, nil)) })
		return v.seq() + retID(r == l.Ego())
	})
	lop("ForEachBool", func(s S, cl C, l L, c R) any {
		var v visit
		r := l.ForEachBool(func(x bool) { yieldSome(s); v.add(canon(x, nil)) })
		return v.seq() + retID(r == l.Ego())
	})
	lop("ForEachInt", func(s S, cl C, l L, c R) any {
		var v visit
		r := l.ForEachInt(func(x int) { yieldSome(s); v.add(canon(x, nil)) })
		return v.seq() + retID(r == l.Ego())
	})
	lop("ForEachFloat", func(s S, cl C, l L, c R) any {
		var v visit
		r := l.ForEachFloat(func(x float64) { yieldSome(s); v.add(canon(x, nil)) })
		return v.seq() + retID(r == l.Ego())
	})
	lop("Map", func(s S, cl C, l L, c R) any {
		return l.Map(func(i int, x any) any { yieldSome(s); return pureFns[c.fn].f(strconv.Itoa(i), i, x) })
	})
	lop("MapValues", func(s S, cl C, l L, c R) any {
		return l.MapValues(func(x any) any { yieldSome(s); return pureFns[c.fn].f("v", 0, x) })
	})
	lop("MapObjects", func(s S, cl C, l L, c R) any {
		return l.MapObjects(func(x O) any { yieldSome(s); return pureFns[c.fn].f("o", 0, x) })
	})
	lop("MapLists", func(s S, cl C, l L, c R) any {
		return l.MapLists(func(x L) any { yieldSome(s); return pureFns[c.fn].f("l", 0, x) })
	})
	lop("MapStrings", func(s S, cl C, l L, c R) any {
		return l.MapStrings(func(x string) any { yieldSome(s); return pureFns[c.fn].f(x, 0, x) })
	})
	lop("MapBools", func(s S, cl C, l L, c R) any {
		return l.MapBools(func(x bool) any { yieldSome(s); return pureFns[c.fn].f("b", 0, x) })
	})
	lop("MapInts", func(s S, cl C, l L, c R) any {
		return l.MapInts(func(x int) any { yieldSome(s); return pureFns[c.fn].f(strconv.Itoa(x), x, x) })
	})
	lop("MapFloats", func(s S, cl C, l L, c R) any {
		return l.MapFloats(func(x float64) any { yieldSome(s); return pureFns[c.fn].f("f", 0, x) })
	})
	lop("Reduce", func(s S, cl C, l L, c R) any {
		return l.Reduce("", func(acc any, x any) any { yieldSome(s); return acc.(string) + "|" + canon(x, nil) })
	})
	lop("ReduceStrings", func(s S, cl C, l L, c R) any {
		return l.ReduceStrings("", func(acc, x string) string { yieldSome(s); return acc + "|" + x })
	})
	lop("ReduceInts", func(s S, cl C, l L, c R) any {
		return l.ReduceInts(0, func(acc, x int) int { yieldSome(s); return acc*31 + x })
	})
	lop("ReduceFloats", func(s S, cl C, l L, c R) any {
		return l.ReduceFloats(0, func(acc, x float64) float64 { yieldSome(s); return acc/2 + x })
	})
	lop("Filter", func(s S, cl C, l L, c R) any {
		k := 0
		return l.Filter(func(x any) bool { yieldSome(s); k++; return (k+c.a)%3 != 0 })
	})
	lop("FilterObjects", func(s S, cl C, l L, c R) any {
		k := 0
		return l.FilterObjects(func(x O) bool { yieldSome(s); k++; return (k+c.a)%2 == 0 })
	})
	lop("FilterLists", func(s S, cl C, l L, c R) any {
		k := 0
		return l.FilterLists(func(x L) bool { yieldSome(s); k++; return (k+c.a)%2 == 0 })
	})
	lop("FilterStrings", func(s S, cl C, l L, c R) any {
		return l.FilterStrings(func(x string) bool { yieldSome(s); return (len(x)+c.a)%2 == 0 })
	})
	lop("FilterInts", func(s S, cl C, l L, c R) any {
		return l.FilterInts(func(x int) bool { yieldSome(s); return (x+c.a)%2 == 0 })
	})
	lop("FilterFloats", func(s S, cl C, l L, c R) any {
		return l.FilterFloats(func(x float64) bool { yieldSome(s); return x > 0 })
	})
	lop("IntSum", func(s S, cl C, l L, c R) any { return l.IntSum() })
	lop("Sum", func(s S, cl C, l L, c R) any { return l.Sum() })
	lop("IntProd", func(s S, cl C, l L, c R) any { return l.IntProd() })
	lop("Prod", func(s S, cl C, l L, c R) any { return l.Prod() })
	lop("Avg", func(s S, cl C, l L, c R) any { return l.Avg() })
	lop("IntMin", func(s S, cl C, l L, c R) any { return l.IntMin() })
	lop("Min", func(s S, cl C, l L, c R) any { return l.Min() })
	lop("IntMax", func(s S, cl C, l L, c R) any { return l.IntMax() })
	lop("Max", func(s S, cl C, l L, c R) any { return l.Max() })
	lop("ForEachAsync", func(s S, cl C, l L, c R) any { doForEachAsync(s, cl, l, c.seq, false); return "done" }).isAsync = true
	lop("MapAsync", func(s S, cl C, l L, c R) any {
		return l.MapAsync(func(i int, x any) any { yieldSome(s); return pureFns[c.fn].f(strconv.Itoa(i), i, x) })
	}).isAsync = true
	lop("GetTF", func(s S, cl C, l L, c R) any { return l.GetTF(c.path) })
	lop("TypeOfTF", func(s S, cl C, l L, c R) any { return l.TypeOfTF(c.path) })

	// ---- Object
	key := func(o O, c R) string {
		if len(c.keys) == 0 {
			return "missing"
		}
		return c.keys[0]
	}
	oop("Ego", func(s S, cl C, o O, c R) any { return o.Ego() })
	oop("Get", func(s S, cl C, o O, c R) any { return o.Get(key(o, c)) })
	oop("GetObject", func(s S, cl C, o O, c R) any { return o.GetObject(key(o, c)) })
	oop("GetList", func(s S, cl C, o O, c R) any { return o.GetList(key(o, c)) })
	oop("GetString", func(s S, cl C, o O, c R) any { return o.GetString(key(o, c)) })
	oop("GetBool", func(s S, cl C, o O, c R) any { return o.GetBool(key(o, c)) })
	oop("GetInt", func(s S, cl C, o O, c R) any { return o.GetInt(key(o, c)) })
	oop("GetFloat", func(s S, cl C, o O, c R) any { return o.GetFloat(key(o, c)) })
	oop("TypeOf", func(s S, cl C, o O, c R) any { return o.TypeOf(key(o, c)) })
	oop("String", func(s S, cl C, o O, c R) any { return o.String() }).canon = canonText
	oop("FormatString", func(s S, cl C, o O, c R) any { return o.FormatString(c.b%13 - 1) }).canon = canonText
	oop("Dict", func(s S, cl C, o O, c R) any { return o.Dict() })
	oop("NativeDict", func(s S, cl C, o O, c R) any { return o.NativeDict() })
	oop("Keys", func(s S, cl C, o O, c R) any { return o.Keys() }).canon = canonSet
	oop("Values", func(s S, cl C, o O, c R) any { return o.Values() }).canon = canonSet
	oop("Clone", func(s S, cl C, o O, c R) any { return o.Clone() })
	oop("Count", func(s S, cl C, o O, c R) any { return o.Count() })
	oop("Empty", func(s S, cl C, o O, c R) any { return o.Empty() })
	oop("Equals", func(s S, cl C, o O, c R) any { return o.Equals(c.other.(O)) })
	oop("Merge", func(s S, cl C, o O, c R) any { return o.Merge(c.other.(O)) })
	oop("Pluck", func(s S, cl C, o O, c R) any { return o.Pluck(c.keys...) })
	oop("Contains", func(s S, cl C, o O, c R) any { return o.Contains(c.val) })
	oop("KeyOf", func(s S, cl C, o O, c R) any {
		k := o.KeyOf(c.val)
		if o.Get(k) == c.val {
			return "a-key-holding-the-value"
		}
		return "wrong-key:" + k
	})
	oop("KeyExists", func(s S, cl C, o O, c R) any { return o.KeyExists(key(o, c)) })
	oop("ForEach", func(s S, cl C, o O, c R) any {
		var v visit
		r := o.ForEach(func(k string, x any) { yieldSome(s); v.add(strconv.Quote(k) + "=" + canon(x, nil)) })
		return v.set() + retID(r == o.Ego())
	})
	oop("ForEachValue", func(s S, cl C, o O, c R) any {
		var v visit
		r := o.ForEachValue(func(x any) { yieldSome(s); v.add(canon(x, nil)) })
		return v.set() + retID(r == o.Ego())
	})
	oop("ForEachObject", func(s S, cl C, o O, c R) any {
		var v visit
		r := o.ForEachObject(func(x O) { yieldSome(s); v.add(canon(x, nil)) })
		return v.set() + retID(r == o.Ego())
	})
	oop("ForEachList", func(s S, cl C, o O, c R) any {
		var v visit
		r := o.ForEachList(func(x L) { yieldSome(s); v.add(canon(x, nil)) })
		return v.set() + retID(r == o.Ego())
	})
	oop("ForEachString", func(s S, cl C, o O, c R) any {
		var v visit
		r := o.ForEachString(func(x string) { yieldSome(s); v.add(canon(x, nil)) })
		return v.set() + retID(r == o.Ego())
	})
	oop("ForEachBool", func(s S, cl C, o O, c R) any {
		var v visit
		r := o.ForEachBool(func(x bool) { yieldSome(s); v.add(canon(x, nil)) })
		return v.set() + retID(r == o.Ego())
	})
	oop("ForEachInt", func(s S, cl C, o O, c R) any {
		var v visit
		r := o.ForEachInt(func(x int) { yieldSome(s); v.add(canon(x, nil)) })
		return v.set() + retID(r == o.Ego())
	})
	oop("ForEachFloat", func(s S, cl C, o O, c R) any {
		var v visit
		r := o.ForEachFloat(func(x float64) { yieldSome(s); v.add(canon(x, nil)) })
		return v.set() + retID(r == o.Ego())
	})
	oop("Map", func(s S, cl C, o O, c R) any {
		return o.Map(func(k string, x any) any { yieldSome(s); return pureFns[c.fn].f(k, 0, x) })
	})
	oop("MapValues", func(s S, cl C, o O, c R) any {
		return o.MapValues(func(x any) any { yieldSome(s); return pureFns[c.fn].f("v", 0, x) })
	})
	oop("MapObjects", func(s S, cl C, o O, c R) any {
		return o.MapObjects(func(x O) any { yieldSome(s); return pureFns[c.fn].f("o", 0, x) })
	})
	oop("MapLists", func(s S, cl C, o O, c R) any {
		return o.MapLists(func(x L) any { yieldSome(s); return pureFns[c.fn].f("l", 0, x) })
	})
	oop("MapStrings", func(s S, cl C, o O, c R) any {
		return o.MapStrings(func(x string) any { yieldSome(s); return pureFns[c.fn].f(x, 0, x) })
	})
	oop("MapBools", func(s S, cl C, o O, c R) any {
		return o.MapBools(func(x bool) any { yieldSome(s); return pureFns[c.fn].f("b", 0, x) })
	})
	oop("MapInts", func(s S, cl C, o O, c R) any {
		return o.MapInts(func(x int) any { yieldSome(s); return pureFns[c.fn].f(strconv.Itoa(x), x, x) })
	})
	oop("MapFloats", func(s S, cl C, o O, c R) any {
		return o.MapFloats(func(x float64) any { yieldSome(s); return pureFns[c.fn].f("f", 0, x) })
	})
	oop("ForEachAsync", func(s S, cl C, o O, c R) any { doForEachAsync(s, cl, o, c.seq, false); return "done" }).isAsync = true
	oop("MapAsync", func(s S, cl C, o O, c R) any {
		return o.MapAsync(func(k string, x any) any { yieldSome(s); return pureFns[c.fn].f(k, 0, x) })
	}).isAsync = true
	oop("GetTF", func(s S, cl C, o O, c R) any { return o.GetTF(c.path) })
	oop("TypeOfTF", func(s S, cl C, o O, c R) any { return o.TypeOfTF(c.path) })
}

func retID(same bool) string {
	if same {
		return "+ret=receiver"
	}
	return "+ret=OTHER"
}

// Methods of the two interfaces that modify their receiver (or are set-up plumbing): never issued by readers.
var mutatingMethods = map[string]bool{
	"Init": true, "Add": true, "Insert": true, "Replace": true, "Delete": true, "Pop": true, "Clear": true,
	"Sort": true, "Reverse": true, "Set": true, "Unset": true, "SetTF": true, "UnsetTF": true,
}

// uncoveredMethods compares the reader tables with the interfaces themselves, so that an
// added method is reported as uncovered instead of silently skipped.
func uncoveredMethods() []string {
	var out []string
	check := func(t reflect.Type, ops []*roOp, prefix string) {
		have := map[string]bool{}
		for _, o := range ops {
			have[o.name] = true
		}
		for i := 0; i < t.NumMethod(); i++ {
			m := t.Method(i)
			if m.PkgPath != "" || mutatingMethods[m.Name] || have[m.Name] {
				continue
			}
			out = append(out, prefix+m.Name)
		}
	}
	check(reflect.TypeOf((*at.List)(nil)).Elem(), listOps, "List.")
	check(reflect.TypeOf((*at.Object)(nil)).Elem(), objOps, "Object.")
	sort.Strings(out)
	return out
}

// uncoveredFluent lists interface methods that return the interface's own type and are neither in the fluent
// table of the hist engine nor known to return a new container.
func uncoveredFluent() []string {
	var out []string
	for _, t := range []reflect.Type{reflect.TypeOf((*at.List)(nil)).Elem(), reflect.TypeOf((*at.Object)(nil)).Elem()} {
		for i := 0; i < t.NumMethod(); i++ {
			m := t.Method(i)
			if m.PkgPath != "" || m.Type.NumOut() != 1 || m.Type.Out(0) != t {
				continue
			}
			if !fluentCovered[m.Name] && !returnsNew[m.Name] {
				out = append(out, t.Name()+"."+m.Name+" (returns "+t.Name()+", not in the fluent table)")
			}
		}
	}
	sort.Strings(out)
	return out
}

// collect lists every container reachable from the roots, in a deterministic order.
func collect(roots ...any) (lists []at.List, objs []at.Object) {
	seen := map[uintptr]bool{}
	var walk func(v any)
	walk = func(v any) {
		switch x := v.(type) {
		case at.List:
			if seen[ptrOf(x)] {
				return
			}
			seen[ptrOf(x)] = true
			lists = append(lists, x)
			for i, n := 0, x.Count(); i < n; i++ {
				walk(x.Get(i))
			}
		case at.Object:
			if seen[ptrOf(x)] {
				return
			}
			seen[ptrOf(x)] = true
			objs = append(objs, x)
			d := x.Dict()
			keys := make([]string, 0, len(d))
			for k := range d {
				keys = append(keys, k)
			}
			sort.Strings(keys)
			for _, k := range keys {
				walk(d[k])
			}
		}
	}
	for _, r := range roots {
		walk(r)
	}
	return
}

// genPath walks down from c and renders a tree-form path; with some probability it ends in a step that does not resolve.
func genPath(d drawer, c any) string {
	var b strings.Builder
	// a third of the paths head for nested containers at every level (long paths are otherwise rare: every level has more scalars than containers)
	deep := d.Draw("path-deep", 3) == 0
	isContainer := func(v any) bool {
		switch v.(type) {
		case at.List, at.Object:
			return true
		}
		return false
	}
	for depth := 0; depth < 9; depth++ {
		switch x := c.(type) {
		case at.List:
			n := x.Count()
			i := d.Draw("path-idx", n+1)
			if deep {
				var cs []int
				for j := 0; j < n && j < 64; j++ {
					if isContainer(x.Get(j)) {
						cs = append(cs, j)
					}
				}
				if len(cs) > 0 {
					i = cs[i%len(cs)]
				}
			}
			b.WriteString("#" + strconv.Itoa(i))
			if i >= n {
				return b.String()
			}
			c = x.Get(i)
		case at.Object:
			keys := sortedKeys(x)
			var k string
			if len(keys) == 0 || d.Draw("path-miss", 5) == 0 {
				k = "nokey"
			} else {
				k = keys[d.Draw("path-key", len(keys))]
				if deep {
					var cs []string
					for _, kk := range keys {
						if len(cs) < 64 && isContainer(x.Get(kk)) && kk != "" && !strings.ContainsAny(kk, ".#") {
							cs = append(cs, kk)
						}
					}
					if len(cs) > 0 {
						k = cs[len(k)%len(cs)]
					}
				}
			}
			if k == "" || strings.ContainsAny(k, ".#") {
				k = "nokey"
			}
			b.WriteString("." + k)
			if !x.KeyExists(k) {
				return b.String()
			}
			c = x.Get(k)
		default:
			return b.String()
		}
		if d.Draw("path-stop", 5) == 0 && !(deep && depth < 4) {
			break
		}
	}
	return b.String()
}

func sortedKeys(o at.Object) []string {
	d := o.Dict()
	keys := make([]string, 0, len(d))
	for k := range d {
		keys = append(keys, k)
	}
	sort.Strings(keys)
	return keys
}

func genCall(d drawer, lists []at.List, objs []at.Object, onList bool, pick int) *roCall {
	c := &roCall{a: d.Draw("arg-a", 64), b: d.Draw("arg-b", 64), fn: d.Draw("pure-fn", len(pureFns))}
	if onList {
		l := lists[pick%len(lists)]
		c.c = l
		c.other = lists[d.Draw("other", len(lists))]
		if n := l.Count(); n > 0 && d.Draw("val-present", 3) > 0 {
			c.val = l.Get(d.Draw("val-idx", n))
		} else {
			c.val = genScalar(d)
		}
		c.path = genPath(d, l)
		return c
	}
	o := objs[pick%len(objs)]
	c.c = o
	c.other = objs[d.Draw("other", len(objs))]
	keys := sortedKeys(o)
	nk := d.Draw("nkeys", 3) + 1
	for i := 0; i < nk; i++ {
		if len(keys) > 0 && d.Draw("key-present", 5) > 0 {
			c.keys = append(c.keys, keys[d.Draw("key", len(keys))])
		} else {
			c.keys = append(c.keys, "missing")
		}
	}
	if len(keys) > 0 && d.Draw("val-present", 3) > 0 {
		c.val = o.Get(keys[d.Draw("val-key", len(keys))])
	} else {
		c.val = genScalar(d)
	}
	c.path = genPath(d, o)
	return c
}

// exec performs the call; the raw result is canonicalised only after further yields, so that a
// result clobbered later by another client is seen.
func (c *roCall) exec(s *simrt.Sim, cl *asyncClient, nm namer, concurrent bool) string {
	var raw any
	p, _ := try(func() {
		switch x := c.c.(type) {
		case at.List:
			raw = c.op.list(s, cl, x, c)
		case at.Object:
			raw = c.op.obj(s, cl, x, c)
		}
	})
	if p {
		return "panic"
	}
	if concurrent {
		yieldSome(s)
	}
	if c.op.canon != nil {
		return c.op.canon(raw, nm)
	}
	return canon(raw, nm)
}

func (c *roCall) describe(nm namer) string {
	recv := nm.name(c.c)
	return fmt.Sprintf("%s.%s(a=%d,b=%d,other=%s,val=%s,path=%q,keys=%q,fn=%s)", recv, c.op.name, c.a, c.b,
		nm.name(c.other), short(canon(c.val, nm), 40), c.path, c.keys, pureFns[c.fn].name)
}

// readers is scenario D: k clients issue read-only calls on a shared heap.
func readers(s *simrt.Sim, top *asyncClient, sameCall bool, trace *[]string) []*asyncClient {
	// shared heap
	nroots := 1 + s.Draw("roots", 3)
	var roots []any
	for i := 0; i < nroots; i++ {
		if s.Draw("root-kind", 2) == 0 {
			roots = append(roots, genList(s, treeOpts{depth: 2, width: 6, spare: true, keys: plainKeyPool}))
		} else {
			roots = append(roots, genObject(s, treeOpts{depth: 2, width: 6, spare: true, keys: plainKeyPool}))
		}
	}
	if s.Draw("readers-wide", 4) == 0 {
		// containers beyond small-size thresholds (hints, caches and batch strategies often start at 16, 32 or 64 elements)
		wl := at.NewList()
		wo := at.NewObject()
		n := 17 + s.Draw("wide-n", 60)
		if s.Draw("wide-tail", 3) == 0 {
			// far beyond: strategies that start at a hundred or a thousand elements (shared scratch space for long containers)
			n = []int{100, 128, 129, 192, 200, 256, 257, 400, 512, 600, 1024, 1025, 2049}[s.Draw("wide-tail-n", 13)]
			top.ops["probe:readers-very-wide-heap"]++
		}
		for i := 0; i < n; i++ {
			v := genValue(s, treeOpts{depth: 1, width: 3, keys: plainKeyPool})
			wl.Add(v)
			wo.Set("w"+strconv.Itoa(i), v)
		}
		roots = append(roots, wl, wo)
		top.ops["probe:readers-wide-heap"]++
	}
	if s.Draw("readers-deep", 3) == 0 {
		// a chain of nested containers, so that tree-form reads with many segments exist
		var inner any = at.NewList("leaf", 1)
		for i := 0; i < 4+s.Draw("deep-n", 5); i++ {
			if i%2 == 0 {
				inner = at.NewObject("a", inner, "b", i)
			} else {
				inner = at.NewList(i, inner)
			}
		}
		roots = append(roots, inner)
		top.ops["probe:readers-deep-heap"]++
	}
	// make sure both interfaces are present, and nest one root into another sometimes (shared sub-tree)
	roots = append(roots, at.NewList(1, "two", 3.5, roots[0]), at.NewObject("a", 1, "b", roots[0]))
	// an equal but distinct copy of the first root (two-container operations such as Equals go all the way only on such pairs)
	var twinA, twinB any
	switch x := roots[0].(type) {
	case at.List:
		twinA, twinB = x, x.Clone()
	case at.Object:
		twinA, twinB = x, x.Clone()
	}
	roots = append(roots, twinB)
	lists, objs := collect(roots...)
	// receivers are drawn from the roots half of the time (the roots include the wide containers), otherwise from anywhere
	var rootLists []at.List
	var rootObjs []at.Object
	for _, r := range roots {
		switch x := r.(type) {
		case at.List:
			rootLists = append(rootLists, x)
		case at.Object:
			rootObjs = append(rootObjs, x)
		}
	}
	pickRecv := func(onList bool) int {
		if s.Draw("recv-root", 2) == 0 {
			if onList {
				want := rootLists[s.Draw("recv", len(rootLists))]
				for i, l := range lists {
					if l == want {
						return i
					}
				}
			} else {
				want := rootObjs[s.Draw("recv", len(rootObjs))]
				for i, o := range objs {
					if o == want {
						return i
					}
				}
			}
		}
		return s.Draw("recv", 64)
	}
	nm := nameHeap(roots...)
	// cold: none of the planned calls (and no rendering of the heap) runs before the concurrent phase, so the clients meet
	// whatever the read-only methods compute lazily on first use; the sequential expectation is taken afterwards
	cold := s.Draw("cold-readers", 3) == 0
	before := make([]string, len(roots))
	if cold {
		top.ops["probe:cold-readers"]++
	} else {
		for i, r := range roots {
			before[i] = canon(r, nm)
			*trace = append(*trace, "root "+short(before[i], 300))
		}
	}

	k := 2 + s.Draw("clients", 3)
	if s.Draw("clients-tail", 12) == 0 {
		k = 5 + s.Draw("clients-many", 6)
	}
	clients := make([]*asyncClient, k)
	plans := make([][]*roCall, k)
	if sameCall {
		onList := s.Draw("same-iface", 2) == 0
		pick := pickRecv(onList)
		var ops []*roOp
		if onList {
			ops = listOps
		} else {
			ops = objOps
		}
		op := ops[s.Draw("same-op", len(ops))]
		proto := genCall(s, lists, objs, onList, pick)
		proto.op = op
		reps := 1 + s.Draw("same-reps", 3)
		// identical calls, or the same method on the same receiver with independently drawn arguments
		// (a hidden write keyed by the argument only collides when the arguments differ)
		argMode := s.Draw("same-args", 4)
		op2 := ops[s.Draw("same-op2", len(ops))]
		switch argMode {
		case 1:
			top.ops["probe:readers-same-method-different-arguments"]++
		case 2:
			// two methods on one receiver: a hidden write in one of them meets the reads of the other
			top.ops["probe:readers-two-methods-one-receiver"]++
			reps++
		}
		if argMode == 3 {
			// mirrored: half of the clients call op(a, b), the other half op(b, a) (two-container operations that take both
			// containers' locks, or walk both, meet each other in opposite order)
			top.ops["probe:readers-mirrored-operands"]++
			_, aIsList := twinA.(at.List)
			if aIsList == onList && s.Draw("mirrored-equal-pair", 2) == 0 {
				proto.c, proto.other = twinA, twinB
			}
		}
		for i := range plans {
			for r := 0; r < reps; r++ {
				cp := *proto
				if argMode == 3 {
					if (r+i)%2 == 1 && cp.other != nil && cp.other != cp.c {
						cp.c, cp.other = cp.other, cp.c
					}
					cp.seq = r + 1
					plans[i] = append(plans[i], &cp)
					continue
				}
				if argMode != 0 {
					cp = *genCall(s, lists, objs, onList, pick)
					cp.op = op
					if argMode == 2 && (r+i)%2 == 1 {
						cp.op = op2
					}
				}
				cp.seq = r + 1
				plans[i] = append(plans[i], &cp)
			}
		}
	} else {
		for i := range plans {
			n := 3 + s.Draw("calls", 8)
			for r := 0; r < n; r++ {
				onList := s.Draw("iface", 2) == 0
				c := genCall(s, lists, objs, onList, pickRecv(onList))
				if onList {
					c.op = listOps[s.Draw("op", len(listOps))]
				} else {
					c.op = objOps[s.Draw("op", len(objOps))]
				}
				c.seq = r + 1
				plans[i] = append(plans[i], c)
			}
		}
	}
	// phase 1: sequential expectation
	expect := func() {
		for i := range plans {
			ghost := &asyncClient{id: 100 + i, ops: map[string]int{}}
			for _, c := range plans[i] {
				c.exp = c.exec(s, ghost, nm, false)
			}
			top.calls = append(top.calls, ghost.calls...)
			top.fails = append(top.fails, ghost.fails...)
			*trace = append(*trace, fmt.Sprintf("client %d: %d calls, first %s", i+1, len(plans[i]), plans[i][0].describe(nm)))
		}
	}
	if !cold {
		expect()
	}
	// phase 2: concurrent clients
	var wg simrt.WaitGroup
	wg.Add(k)
	for i := 0; i < k; i++ {
		cl := &asyncClient{id: i + 1, ops: map[string]int{}}
		clients[i] = cl
		plan := plans[i]
		s.Client(func() {
			defer wg.Done()
			for _, c := range plan {
				simrt.Yield()
				got := c.exec(s, cl, nm, true)
				cl.evals++
				prefix := "List."
				if c.op.obj != nil {
					prefix = "Object."
				}
				cl.ops[prefix+c.op.name]++
				if cold {
					c.got = got // compared after the sequential pass
				} else if got != c.exp {
					cl.fail("reader-result", prefix+c.op.name, fmt.Sprintf("%s: concurrently %s, sequentially %s", c.describe(nm), short(got, 300), short(c.exp, 300)))
				}
			}
		})
	}
	wg.Wait()
	if cold {
		// the baseline of phase 3 is the heap as the concurrent phase left it; the sequential pass must find the same results
		for i, r := range roots {
			before[i] = canon(r, nm)
		}
		expect()
		for i, plan := range plans {
			for _, c := range plan {
				if c.got != c.exp {
					prefix := "List."
					if c.op.obj != nil {
						prefix = "Object."
					}
					clients[i].fail("reader-result", prefix+c.op.name, fmt.Sprintf("%s: concurrently (first use) %s, sequentially afterwards %s", c.describe(nm), short(c.got, 300), short(c.exp, 300)))
				}
			}
		}
	}
	// phase 3: the heap is what it was
	for i, r := range roots {
		if after := canon(r, nm); after != before[i] {
			top.fail("heap-changed", "readers", "read-only calls changed a shared container: "+short(before[i], 200)+" -> "+short(after, 200))
		}
	}
	top.evals += len(roots)
	return clients
}

// wideKeys returns a key pool large enough to fill an object of the given width.
func wideKeys(width int) []string {
	if width <= len(keyPool) {
		return nil
	}
	out := append([]string(nil), keyPool...)
	for i := 0; len(out) < 2*width; i++ {
		out = append(out, "k"+strconv.Itoa(100+i))
	}
	return out
}

// reenter performs a read-only call on the container from inside a callback of an async call on that same
// container (a pure callback may read its container; nested async calls are read-only too).
func reenter(s *simrt.Sim, c any) {
	// only on small containers: n callbacks each starting n more goroutines is quadratic work for the harness itself
	// On wide containers the callback works on a small container of its own instead (nested asynchronous calls from every
	// worker of a wide call: linear work, and what a library-wide limit on workers has to survive).
	wide := false
	switch x := c.(type) {
	case at.List:
		if x.Count() > 1100 {
			return // (thousands of nested calls over simulated channels take a correct pool-per-call implementation past the watchdog)
		}
		if x.Count() > 12 {
			wide, c = true, at.NewList(1, "two", 3.5)
		}
	case at.Object:
		if x.Count() > 1100 {
			return
		}
		if x.Count() > 12 {
			wide, c = true, at.NewObject("a", 1, "b", "two")
		}
	}
	k := s.Draw("reenter-kind", 6)
	if wide {
		k = 3 + s.Draw("reenter-wide-kind", 2)
	}
	try(func() {
		switch x := c.(type) {
		case at.List:
			switch k {
			case 0:
				_ = x.Count()
			case 1:
				_ = x.String()
			case 2:
				_ = x.Clone()
			case 3:
				x.ForEachAsync(func(int, any) { simrt.Yield() })
			case 4:
				_ = x.MapAsync(func(i int, v any) any { simrt.Yield(); return i })
			default:
				_ = x.Contains(1)
			}
		case at.Object:
			switch k {
			case 0:
				_ = x.Count()
			case 1:
				_ = x.String()
			case 2:
				_ = x.Keys()
			case 3:
				x.ForEachAsync(func(string, any) { simrt.Yield() })
			case 4:
				_ = x.MapAsync(func(k string, v any) any { simrt.Yield(); return k })
			default:
				_ = x.Contains(1)
			}
		}
	})
}
